---------------------------- MODULE MC_Reconnect ----------------------------
(* Bounded instance of Reconnect.tla: all orders of user calls, attempt outcomes, session ends, mDNS records and time. *)
(* GenMode: every distinct state of the manager is printed once with the (shortest) history that reaches it.          *)
EXTENDS Reconnect, Json
CONSTANTS MaxSteps, MaxTime, GenMode
VARIABLES k, hist, fin
mvars == <<r, k, hist, fin>>
mview == <<r, k, fin>>
MInit == RInit /\ k = 0 /\ hist = <<>> /\ fin = FALSE
H(tok) == hist' = IF GenMode THEN Append(hist, tok) ELSE hist
Step(S, tok) == ~fin /\ k < MaxSteps /\ k' = k + 1 /\ r' \in S /\ H(tok) /\ UNCHANGED fin
NextTimer(x) == x.timer
MNext ==
  \/ ~r.started /\ ~r.stopwait /\ ~r.live /\ Step(UserStart(r), <<"start">>)
  \/ r.started /\ ~r.stopwait /\ Step(UserStop(r), <<"stop">>)
  \/ \E m \in BOOLEAN : Step(Mdns(r, m), <<"mdns", m>>)
  \/ Step(TimerFire(r), <<"timer">>)
  \/ Step(TcpUp(r), <<"tcpup">>)
  \/ \E a \in BOOLEAN : Step(Fail(r, a), <<"fail", a, r.att>>)
  \/ Step(Succeed(r), <<"succeed">>)
  \/ Step(TaskGo(r), <<"i">>)
  \/ Step(StopGo(r), <<"i">>)
  \/ \E e \in BOOLEAN : Step(SessionEnd(r, e), <<"end", e>>)
  \/ r.live /\ ~r.grace /\ Step(Graceful(r), <<"graceful">>)
  \/ r.att = "finishing" /\ ~r.vb /\ Step(VerdictBad(r), <<"verdict_bad">>)
  \* time passes to the retry timer, or a bit (events in between)
  \/ ~fin /\ r.timer # NoT /\ r.timer > r.now /\ r.timer <= MaxTime /\ AtRest(r) /\ k' = k /\ r' = [Begin(r) EXCEPT !.now = r.timer]
        /\ H(<<"totimer">>) /\ UNCHANGED fin
  \/ ~fin /\ AtRest(r) /\ r.now + 1000 <= MaxTime /\ (r.timer = NoT \/ r.now + 1000 < r.timer) /\ k' = k /\ r' = [Begin(r) EXCEPT !.now = r.now + 1000]
        /\ H(<<"wait", 1000>>) /\ UNCHANGED fin
  \/ /\ GenMode /\ ~fin /\ Len(hist) >= 2 /\ fin' = TRUE /\ UNCHANGED <<r, k, hist>>
     /\ PrintT(<<"SCHED", ToJson(hist)>>)
MSpec == MInit /\ [][MNext]_mvars
\* vacuity guards (must be reachable)
NeverTwoFailures == r.tries < 2 \/ r.tries = AuthTries
=============================================================================
