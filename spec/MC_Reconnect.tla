---------------------------- MODULE MC_Reconnect ----------------------------
(* Bounded instance of Reconnect.tla: all orders of user calls, attempt outcomes, session ends, mDNS records and time. *)
EXTENDS Reconnect
CONSTANTS MaxSteps, MaxTime
VARIABLE k
mvars == <<r, k>>
MInit == RInit /\ k = 0
Step(S) == k < MaxSteps /\ k' = k + 1 /\ r' \in S
NextTimer(x) == x.timer
MNext ==
  \/ ~r.started /\ ~r.stopwait /\ ~r.live /\ Step(UserStart(r))
  \/ r.started /\ ~r.stopwait /\ Step(UserStop(r))
  \/ \E m \in BOOLEAN : Step(Mdns(r, m))
  \/ Step(TimerFire(r))
  \/ Step(TcpUp(r))
  \/ \E a \in BOOLEAN : Step(Fail(r, a))
  \/ Step(Succeed(r))
  \/ Step(TaskGo(r))
  \/ Step(StopGo(r))
  \/ \E e \in BOOLEAN : Step(SessionEnd(r, e))
  \* time passes to the retry timer, or a bit (events in between)
  \/ r.timer # NoT /\ r.timer > r.now /\ r.timer <= MaxTime /\ AtRest(r) /\ k' = k /\ r' = [Begin(r) EXCEPT !.now = r.timer]
  \/ AtRest(r) /\ r.now + 1000 <= MaxTime /\ (r.timer = NoT \/ r.now + 1000 < r.timer) /\ k' = k /\ r' = [Begin(r) EXCEPT !.now = r.now + 1000]
MSpec == MInit /\ [][MNext]_mvars
\* vacuity guards (must be reachable)
NeverTwoFailures == r.tries < 2 \/ r.tries = AuthTries
=============================================================================
