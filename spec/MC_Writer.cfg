CONSTANTS
  Packets <- MCPackets
  MaxBatch = 2
  MaxWrites = 3
  Modes <- BothModes
SPECIFICATION Spec
VIEW view
INVARIANT NonceContinuity
CHECK_DEADLOCK FALSE
