CONSTANTS
  TBle = 30000
  TDisc = 20000
SPECIFICATION TSpec
CONSTRAINT Prog
INVARIANT NoCrossTalk
INVARIANT NothingLeft
INVARIANT ImgKeysUnique
POSTCONDITION Accepted
CHECK_DEADLOCK FALSE
