---------------------------- MODULE NoiseHelper ----------------------------
(***************************************************************************)
(* Noise frame helper (noise.py) with symbolic cryptography: C03, C04 and  *)
(* the Noise half of C02.                                                  *)
(*                                                                         *)
(* The device's byte stream is a sequence of symbolic frames.  An honest   *)
(* session is  hello . handshake . data(nonce 0) . data(nonce 1) ...  and  *)
(* every deviation of the C04 statement is a named transformation `dev` of *)
(* it.  A ciphertext opens iff key, nonce and integrity match.  The        *)
(* network cuts the stream anywhere (`Receive(n)`).  An exception that     *)
(* escapes data_received reaches the helper one loop iteration later as    *)
(* connection_lost(exc): that is the separate step `ConnLost`.             *)
(***************************************************************************)
EXTENDS Naturals, Sequences, FiniteSets, Wire, TLC, Json

CONSTANTS M,          \* number of application messages in the honest session
          Names,      \* name configurations: [dev: name the device announces | "none", exp: expected | "none"]
          Devs,       \* deviations explored
          CutMode     \* "all" | "interesting"

VARIABLES nm,         \* chosen name configuration
          dev,        \* chosen deviation
          rcvd,       \* bytes received
          done,       \* frames consumed by the parser
          st,         \* "HELLO" | "HANDSHAKE" | "READY" | "CLOSED"
          rx,         \* next receive nonce
          delivered,  \* message indices handed to the connection
          ready,      \* {"pending"} | {"ok"} | set of allowed error classes
          rep,        \* <<>> or <<set of allowed classes>> : first error reported to the connection
          trClosed,   \* transport closed / closing
          esc,        \* {"none"} | classes of an exception that escaped, connection_lost pending
          tx,         \* next send nonce
          wire,       \* writes of the client: sequence of sequences of [nonce, idx]
          hist,
          Frames,     \* cached: FramesOf(nm, dev)
          so,         \* cached: start offset of every frame
          cuts        \* cached: allowed chunk boundaries

vars == <<nm, dev, rcvd, done, st, rx, delivered, ready, rep, trClosed, esc, tx, wire, hist, Frames, so, cuts>>
view == <<nm, dev, rcvd, done, st, rx, delivered, ready, rep, trClosed, esc, tx, wire>>
const == <<nm, dev, Frames, so, cuts>>

ANY == {"any"}   \* some class; the statement does not say which

\* ----------------------------------------------------------- honest stream
NameLen(n) == IF n = "none" THEN 0 ELSE IF n = "" THEN 1 ELSE 4     \* absent / "\0" / "dev\0", "oth\0"
Hello(n)   == [k |-> "hello", blen |-> 1 + NameLen(n), claim |-> 1 + NameLen(n),
               proto |-> 1, name |-> n, marker |-> 1, key |-> "good", nonce |-> 0, idx |-> 0, integ |-> "ok"]
\* (hp: length of the payload the responder attaches to its handshake message - any conformant responder may)
Hs(kind, hp) == [k |-> "hs", blen |-> 49 + hp, claim |-> 49 + hp, proto |-> 0, name |-> kind, marker |-> 1,
               key |-> "good", nonce |-> 0, idx |-> 0, integ |-> "ok"]
HsErr(mac) == [k |-> "hserr", blen |-> IF mac THEN 22 ELSE 12, claim |-> IF mac THEN 22 ELSE 12,
               proto |-> 0, name |-> IF mac THEN "mac" ELSE "other", marker |-> 1,
               key |-> "good", nonce |-> 0, idx |-> 0, integ |-> "ok"]
Data(i)    == [k |-> "data", blen |-> 20 + i, claim |-> 20 + i, proto |-> 0, name |-> "none", marker |-> 1,
               key |-> "good", nonce |-> i - 1, idx |-> i, integ |-> "ok"]
Honest(nn) == <<Hello(nn.dev), Hs("ok", nn.hp)>> \o [i \in 1..M |-> Data(i)]
NF == M + 2

RemoveAt(s, i) == SubSeq(s, 1, i - 1) \o SubSeq(s, i + 1, Len(s))
InsertAt(s, i, e) == SubSeq(s, 1, i - 1) \o <<e>> \o SubSeq(s, i, Len(s))

\* the stream the device really sends, given the deviation
FramesOf(nn, dd) ==
  LET h == Honest(nn) IN
  CASE dd.k = "none"      -> h
    [] dd.k = "marker"    -> [h EXCEPT ![dd.i].marker = 0]
    [] dd.k = "lenUp"     -> [h EXCEPT ![dd.i].claim = @ + 5, ![dd.i].integ = "bad"]
    [] dd.k = "lenDown"   -> [h EXCEPT ![dd.i].claim = @ - 3, ![dd.i].integ = "bad"]
    [] dd.k = "body"      -> [h EXCEPT ![dd.i].integ = "bad"]
    [] dd.k = "tag"       -> [h EXCEPT ![dd.i].integ = "bad"]
    [] dd.k = "dup"       -> InsertAt(h, dd.i + 1, h[dd.i])
    [] dd.k = "swap"      -> [h EXCEPT ![dd.i] = h[dd.i + 1], ![dd.i + 1] = h[dd.i]]
    [] dd.k = "drop"      -> RemoveAt(h, dd.i)
    [] dd.k = "wrongkey"  -> [h EXCEPT ![2].key = "bad"]
    [] dd.k = "datakey"   -> [h EXCEPT ![dd.i].key = "bad"]
    [] dd.k = "hserr"     -> [h EXCEPT ![2] = HsErr(dd.i = 1)]
    [] dd.k = "proto"     -> [h EXCEPT ![1].proto = 2]
    [] dd.k = "empty"     -> [h EXCEPT ![1].blen = 0, ![1].claim = 0]
    [] dd.k = "plaindev"  -> [h EXCEPT ![1].marker = 0]

\* first index at which the stream differs from the honest one (NF+1 if none within it)
NameOK(n) == n = "none" \/ nm.exp = "none" \/ n = nm.exp
BadNameCase == dev.k = "none" /\ ~NameOK(nm.dev)
FirstDev ==
  CASE dev.k = "none" -> IF BadNameCase THEN 1 ELSE Len(Frames) + 1
    [] dev.k \in {"marker", "lenUp", "lenDown", "body", "tag", "swap", "drop", "datakey"} -> dev.i
    [] dev.k = "dup" -> dev.i + 1
    [] dev.k \in {"wrongkey", "hserr"} -> 2
    [] dev.k \in {"proto", "empty", "plaindev"} -> 1

\* bytes really occupied by frame j in the stream
RECURSIVE StartsOf(_, _)
StartsOf(f, j) == IF j = 1 THEN 0 ELSE StartsOf(f, j - 1) + 3 + f[j - 1].blen
StartOf(j) == so[j]
Total == StartOf(Len(Frames)) + 3 + Frames[Len(Frames)].blen
HeaderComplete(j, r) == j <= Len(Frames) /\ StartOf(j) + 3 <= r
FrameComplete(j, r)  == j <= Len(Frames) /\ StartOf(j) + 3 + Frames[j].claim <= r

\* ---------------------------------------------------------------- handlers
\* s = [st, rx, delivered, ready, rep, trClosed, esc]
FailClose(s, cls) ==   \* _handle_error_and_close: synchronous
  [s EXCEPT !.st = "CLOSED", !.trClosed = TRUE,
            !.ready = IF s.ready = {"pending"} THEN cls ELSE s.ready,
            !.rep = IF s.rep = <<>> THEN <<cls>> ELSE s.rep]
Escape(s, cls) ==      \* exception leaves data_received: transport force-closed now,
  [s EXCEPT !.trClosed = TRUE, !.esc = cls]   \* connection_lost(exc) next iteration

Opens(s, f) == f.k = "data" /\ f.key = "good" /\ f.integ = "ok" /\ f.nonce = s.rx

Handle(s, f) ==
  CASE s.st = "HELLO" ->
         IF f.k = "hello" THEN
            IF f.blen = 0 THEN FailClose(s, {"handshake"})
            ELSE IF f.proto # 1 THEN FailClose(s, {"handshake"})
            ELSE IF ~NameOK(f.name) THEN FailClose(s, {"badname"})
            ELSE [s EXCEPT !.st = "HANDSHAKE"]
         ELSE IF f.k = "hs" THEN FailClose(s, {"handshake"})       \* selector byte 0
         ELSE FailClose(s, ANY)
    [] s.st = "HANDSHAKE" ->
         IF f.k = "hs" THEN
            IF f.key = "good" /\ f.integ = "ok"
            THEN [s EXCEPT !.st = "READY", !.ready = {"ok"}]
            ELSE IF f.claim < f.blen THEN Escape(s, ANY)             \* truncated handshake (whatever its payload)
            ELSE Escape(s, {"invalidkey"})                           \* MAC failure -> invalid key
         ELSE IF f.k = "hserr" THEN
            FailClose(s, IF f.name = "mac" THEN {"invalidkey"} ELSE {"handshake"})
         ELSE IF f.k = "hello" THEN FailClose(s, {"handshake"})     \* read as an error frame
         ELSE Escape(s, ANY)
    [] s.st = "READY" ->
         IF Opens(s, f)
         THEN [s EXCEPT !.rx = @ + 1, !.delivered = Append(@, f.idx)]
         ELSE Escape(s, {"invalidkey"})                              \* InvalidTag -> invalid key
    [] OTHER -> s

RECURSIVE Process(_, _, _)
\* consume complete frames from index j on, having received r bytes
Process(s, j, r) ==
  IF s.st = "CLOSED" \/ s.esc # {"none"} \/ ~HeaderComplete(j, r) THEN [s |-> s, j |-> j]
  ELSE IF Frames[j].marker # 1 THEN [s |-> FailClose(s, {"protocol"}), j |-> j]
  ELSE IF ~FrameComplete(j, r) THEN [s |-> s, j |-> j]
  ELSE Process(Handle(s, Frames[j]), j + 1, r)

\* ----------------------------------------------------------------- actions
CutsOf(f, sof, total) == IF CutMode = "all" THEN 1..total
        ELSE {p \in 1..total : \E j \in 1..Len(f) :
                LET a == sof[j] IN
                p \in {a + 1, a + 2, a + 3, a + 4, a + 3 + (f[j].blen \div 2),
                       a + 2 + f[j].blen, a + 3 + f[j].blen,
                       a + 3 + f[j].claim, a + 4 + f[j].claim}}

Init == /\ nm \in Names /\ dev \in Devs
        /\ (dev.k = "none" \/ nm.dev = "none" \/ nm.exp = "none" \/ nm.dev = nm.exp)  \* single deviations
        /\ Frames = FramesOf(nm, dev)
        /\ so = [j \in 1..Len(Frames) |-> StartsOf(Frames, j)]
        /\ cuts = CutsOf(Frames, so, so[Len(Frames)] + 3 + Frames[Len(Frames)].blen)
        /\ rcvd = 0 /\ done = 1 /\ st = "HELLO" /\ rx = 0 /\ delivered = <<>>
        /\ ready = {"pending"} /\ rep = <<>> /\ trClosed = FALSE /\ esc = {"none"}
        /\ tx = 0 /\ wire = <<>> /\ hist = <<>>

Cur == [st |-> st, rx |-> rx, delivered |-> delivered, ready |-> ready, rep |-> rep,
        trClosed |-> trClosed, esc |-> esc]

\* strict = FALSE: the statement leaves class / instant open at this point
Strict(s, j, r) == /\ ANY \notin {s.ready, s.esc} /\ s.rep # <<ANY>>
                   /\ ~(HeaderComplete(j, r) /\ ~FrameComplete(j, r) /\ Frames[j].marker # 1)
Obs(s, j, r) == [nd |-> Len(s.delivered), ready |-> s.ready, rep |-> s.rep, closed |-> s.trClosed,
                 strict |-> Strict(s, j, r)]

ReceiveRaw(n) ==
  /\ ~trClosed /\ esc = {"none"}
  /\ rcvd + n <= Total
  /\ LET p == Process(Cur, done, rcvd + n) s == p.s IN
       /\ st' = s.st /\ rx' = s.rx /\ delivered' = s.delivered /\ ready' = s.ready
       /\ rep' = s.rep /\ trClosed' = s.trClosed /\ esc' = s.esc /\ done' = p.j
       /\ hist' = Append(hist, [a |-> "recv", n |-> n, obs |-> Obs(s, p.j, rcvd + n)])
  /\ rcvd' = rcvd + n
  /\ UNCHANGED <<const, tx, wire>>

Receive(n) == (rcvd + n) \in cuts \cup {Total} /\ ReceiveRaw(n)

\* asyncio delivers connection_lost(exc) after an exception escaped data_received
ConnLost ==
  /\ esc # {"none"}
  /\ rep' = IF rep = <<>> THEN <<esc>> ELSE rep
  /\ ready' = IF ready = {"pending"} THEN esc ELSE ready
  /\ esc' = {"none"}
  /\ hist' = Append(hist, [a |-> "lost", n |-> 0,
                           obs |-> [nd |-> Len(delivered), ready |-> ready', rep |-> rep', closed |-> TRUE,
                                   strict |-> esc # ANY]])
  /\ UNCHANGED <<const, rcvd, done, st, rx, delivered, trClosed, tx, wire>>

\* the client writes a batch of b messages (only possible once READY)
WriteRaw(b) ==
  /\ st = "READY" /\ ~trClosed
  /\ wire' = Append(wire, [i \in 1..b |-> tx + i - 1])
  /\ tx' = tx + b
  /\ hist' = Append(hist, [a |-> "write", n |-> b, obs |-> Obs(Cur, done, rcvd)])
  /\ UNCHANGED <<const, rcvd, done, st, rx, delivered, ready, rep, trClosed, esc>>

Write(b) == Len(wire) < 2 /\ WriteRaw(b)

Next == (\E n \in {c - rcvd : c \in {x \in cuts \cup {Total} : x > rcvd}} : Receive(n)) \/ ConnLost \/ (\E b \in 1..2 : Write(b))
NextNoWrite == (\E n \in {c - rcvd : c \in {x \in cuts \cup {Total} : x > rcvd}} : Receive(n)) \/ ConnLost
SpecNoWrite == Init /\ [][NextNoWrite]_vars
Spec == Init /\ [][Next]_vars

\* -------------------------------------------------------------- properties
\* honest data frames strictly before the first deviation whose last byte arrived
HonestBefore == {j \in 3..Len(Frames) : j < FirstDev /\ FrameComplete(j, rcvd)}
\* C03/C04: delivered is exactly the honest messages before the deviation that are
\* complete -- in order, once; nothing altered, forged, replayed or following it
DeliveredIsHonestPrefix ==
  delivered = [i \in 1..Cardinality(HonestBefore) |-> i]
\* C03: readiness only after an honest, complete hello and handshake
ReadyOnlyAfterHandshake ==
  ready = {"ok"} => /\ FirstDev > 2 /\ FrameComplete(2, rcvd) /\ NameOK(nm.dev)
\* C03: nothing delivered or written before the handshake completed
NothingBeforeReady == (Len(delivered) > 0 \/ Len(wire) > 0) => ready = {"ok"}
\* C03: name rule
NameRule == (dev.k = "none" /\ FrameComplete(2, rcvd) /\ esc = {"none"})
              => ((ready = {"ok"}) = NameOK(nm.dev))

\* a deviation that is invisible to the client: dropping the last frame
Tolerated == dev.k = "drop" /\ dev.i = Len(Frames) + 1
\* error class the statement demands for the first deviating frame
Table ==
  CASE dev.k = "marker" \/ dev.k = "plaindev" -> {"protocol"}
    [] dev.k \in {"body", "tag", "datakey", "wrongkey"} -> {"invalidkey"}
    [] dev.k = "lenUp" -> {"invalidkey"}
    [] dev.k = "lenDown" -> IF dev.i = 2 THEN ANY ELSE {"invalidkey"}
    [] dev.k = "hserr" -> IF dev.i = 1 THEN {"invalidkey"} ELSE {"handshake"}
    [] dev.k \in {"proto", "empty"} -> {"handshake"}
    [] dev.k = "dup"  -> IF dev.i = 1 THEN {"handshake"} ELSE {"invalidkey"}
    [] dev.k = "swap" -> IF dev.i = 1 THEN {"handshake"} ELSE IF dev.i = 2 THEN ANY ELSE {"invalidkey"}
    [] dev.k = "drop" -> IF dev.i = 1 THEN {"handshake"} ELSE IF dev.i = 2 THEN ANY ELSE {"invalidkey"}
    [] OTHER -> ANY

\* C04: the first complete deviating frame ends the session closed with the table's class,
\* which is also what a pending readiness wait receives
FailClosed ==
  LET j == FirstDev IN
  /\ (dev.k # "none" /\ ~Tolerated /\ FrameComplete(j, rcvd)) =>
        /\ trClosed
        /\ esc = {"none"} => (rep = <<Table>> /\ (ready = {"ok"} \/ ready = Table))
  /\ (BadNameCase /\ FrameComplete(1, rcvd)) =>
        (trClosed /\ rep = <<{"badname"}>> /\ ready = {"badname"})
  \* and never closed without a reason
  /\ trClosed => \/ BadNameCase
                 \/ (dev.k # "none" /\ HeaderComplete(FirstDev, rcvd))
\* C02: client nonces are consecutive from 0, one write per batch
NonceContinuity ==
  LET flat == [w \in 1..Len(wire) |-> wire[w]] IN
  \A w \in 1..Len(wire) : \A i \in 1..Len(wire[w]) :
     wire[w][i] = (IF w = 1 THEN 0 ELSE wire[w - 1][Len(wire[w - 1])] + 1) + i - 1

\* ------------------------------------------------------------- generation
Compact(h) == [i \in 1..Len(h) |-> <<h[i].a, h[i].n, h[i].obs.nd, h[i].obs.ready, h[i].obs.rep,
                                       h[i].obs.closed, h[i].obs.strict>>]
Edge == PrintT(<<"EDGE", ToJson(<<nm, dev, IF Len(hist) = 0 THEN Frames ELSE <<>>, Compact(hist')>>)>>)
=============================================================================
