CONSTANTS
  Packets <- GenPackets
  MaxBatch = 2
  MaxWrites = 2
  Modes <- BothModes
SPECIFICATION Spec
VIEW view
INVARIANT NonceContinuity
ACTION_CONSTRAINT Edge
CHECK_DEADLOCK FALSE
