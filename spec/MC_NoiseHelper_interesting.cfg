CONSTANTS
  M <- MCM
  Names <- MCNames
  Devs <- MCDevs
  CutMode = "interesting"
SPECIFICATION Spec
VIEW view
INVARIANT DeliveredIsHonestPrefix
INVARIANT ReadyOnlyAfterHandshake
INVARIANT NothingBeforeReady
INVARIANT NameRule
INVARIANT FailClosed
INVARIANT NonceContinuity
CHECK_DEADLOCK FALSE
