CONSTANTS
  TResolve = 30
  TTcp = 60
  THandshake = 30
  THello = 30
  TDiscWait = 5
  TDiscResp = 10
  TCall = 10
  Configs <- ConnectConfigs
  MaxEnv = 9
  MaxFaults = 3
  Msgs <- ConnectMsgs
  MaxChunk = 3
  UseCalls = FALSE
  UseSubs = FALSE
  GenMode = TRUE
  StartConnected = FALSE
  Grid = 0
  TrackKA = FALSE
  NAddrs = {1}
  SubKinds = {"A"}
SPECIFICATION MCSpec
CONSTRAINT Horizon
CHECK_DEADLOCK FALSE
