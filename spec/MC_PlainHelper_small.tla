------------------------ MODULE MC_PlainHelper_small ------------------------
EXTENDS PlainHelper
Bad == 0 - 1
MCAlphabet == [type : {1, 127, 128, 300, 16384, 2097152}, plen : {0, 1, 2, 3}]
              \cup [type : {1, 2, 127}, plen : {Bad}]
MCKinds == {"bytes"}
\* generation: a smaller alphabet, all three chunk kinds
GenAlphabet == [type : {1, 128, 16384}, plen : {0, 1, 3}] \cup [type : {1, 2}, plen : {Bad}]
GenKinds == {"bytes", "bytearray", "memoryview"}
\* boundary payload lengths with explicit bytes (slow, thorough tier)
BigAlphabet == [type : {1, 300}, plen : {127, 128}]
=============================================================================
