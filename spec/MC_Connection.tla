--------------------------- MODULE MC_Connection ---------------------------
(* Bounded instances of Connection.tla: an environment with budgets.       *)
EXTENDS Connection, Json

CONSTANTS Configs,        \* set of [noise, exp, login, K]
          MaxEnv,         \* environment / user events per behaviour
          MaxFaults,      \* of which faults
          Msgs,           \* device message alphabet (records with field k)
          MaxChunk,       \* frames per chunk
          UseCalls, UseSubs,
          GenMode,        \* TRUE: behaviours may stop anywhere at rest and print their schedule
          StartConnected, \* TRUE: behaviours start from a freshly connected session (InitConnected)
          Grid,           \* > 0: while idle, time may also advance in steps of Grid up to the next deadline
          TrackKA,        \* TRUE: maintain the keep-alive history (C10 slice)
          SubKinds,       \* kinds user subscriptions may be registered for
          NAddrs          \* numbers of addresses the host may resolve to

VARIABLES e,            \* [n, f] events and faults used so far
          hist,         \* generation only: the schedule so far (hidden by VIEW)
          ev,           \* the event / callback that produced the current state
          ka            \* keep-alive history (C10): [mst, sp, lm, dat]
mcvars == <<s, e, hist, ev, ka>>
mcview == <<s, e, ev, ka>>
HK(tok) == /\ hist' = (IF GenMode THEN Append(hist, tok) ELSE hist) /\ ev' = tok
H(tok) == HK(tok) /\ UNCHANGED ka

None == 0 - 1
KA0 == [mst |-> FALSE, sp |-> None, lm |-> 0, dat |-> None]
Range(f) == {f[i] : i \in DOMAIN f}
\* a chunk that carries at least one valid message is a sign of life
KAChunk(ms) == IF TrackKA /\ \E i \in 1..Len(ms) : Known(ms[i])
               THEN [ka EXCEPT !.mst = TRUE, !.sp = None, !.lm = s.now] ELSE ka
KATick(y) == IF ~TrackKA THEN ka
             ELSE [ka EXCEPT !.mst = FALSE,
                             !.sp = IF "PingRequest" \in Range(y.w) /\ ka.sp = None THEN s.now ELSE @]
KADeath == IF TrackKA THEN [ka EXCEPT !.dat = s.now] ELSE ka

Use(fault) == /\ ~e.stop /\ e.n < MaxEnv /\ (fault => e.f < MaxFaults)
              /\ e' = [e EXCEPT !.n = e.n + 1, !.f = IF fault THEN e.f + 1 ELSE e.f]

Chunks == UNION {[1..k -> Msgs] : k \in 1..MaxChunk}

MCInit == /\ \E c \in Configs, n \in NAddrs : s = (IF StartConnected THEN InitConnected(c) ELSE InitStateN(c, n))
          /\ e = [n |-> 0, f |-> 0, stop |-> FALSE] /\ hist = <<>> /\ ev = <<"init">> /\ ka = KA0

Env ==
  \/ s.st.out = "idle" /\ Use(FALSE) /\ s' = UserStart(s) /\ H(<<"start">>)
  \/ s.st.out # "idle" /\ s.st.out # "pending" /\ Use(TRUE) /\ s' = UserStart(s) /\ H(<<"start">>)   \* second attempt on the object
  \/ s.st.pc = "resolve" /\ s.st.wake = "none" /\ s.cs # "closed" /\ Use(FALSE) /\ s' = EnvResolve(s, "ok") /\ H(<<"resolve", "ok">>)
  \/ s.st.pc = "resolve" /\ s.st.wake = "none" /\ s.cs # "closed" /\ Use(TRUE) /\ s' = EnvResolve(s, "ResolveAPIError") /\ H(<<"resolve", "err">>)
  \/ s.st.pc = "tcp" /\ s.st.wake = "none" /\ s.cs # "closed" /\ Use(FALSE) /\ s' = EnvTcp(s, "ok") /\ H(<<"tcp", "ok">>)
  \/ s.st.pc = "tcp" /\ s.st.wake = "none" /\ s.cs # "closed" /\ Use(TRUE) /\ s' = EnvTcp(s, "SocketAPIError") /\ H(<<"tcp", "err">>)
  \/ s.st.pc = "tcp" /\ s.st.wake = "none" /\ s.cs # "closed" /\ Use(TRUE) /\ s' = EnvTcp(s, "okbad") /\ H(<<"tcp", "okbad">>)
  \/ s.fi.out = "idle" /\ s.st.out = "ok" /\ Use(FALSE) /\ s' = UserFinish(s, s.cfg.login) /\ H(<<"finish", s.cfg.login>>)
  \/ s.fi.out \notin {"idle", "pending"} /\ s.st.out = "ok" /\ Use(TRUE) /\ s' = UserFinish(s, s.cfg.login) /\ H(<<"finish", s.cfg.login>>)   \* second finish on the object
  \/ s.cfg.noise /\ s.fh = "made" /\ ~s.cm /\ s.tr = "open" /\ Use(FALSE) /\ s' = EnvHandshake(s, "ok") /\ H(<<"handshake", "ok">>)
  \/ s.cfg.noise /\ s.fh = "made" /\ ~s.cm /\ s.tr = "open" /\ Use(TRUE)
       /\ \E cls \in {"BadNameAPIError", "InvalidEncryptionKeyAPIError", "HandshakeAPIError"} : s' = EnvHandshake(s, cls) /\ H(<<"handshake", cls>>)
  \/ CanReceive(s) /\ Use(FALSE) /\ \E ms \in Chunks : s' = EnvChunk(s, ms) /\ HK(<<"chunk", ms>>) /\ ka' = KAChunk(ms)
  \/ s.tr = "open" /\ ~s.cm /\ Use(TRUE) /\ s' = EnvEof(s) /\ H(<<"eof">>)
  \/ s.tr = "open" /\ ~s.cm /\ Use(TRUE) /\ \E f \in {"reset", "timedout", "oserr"} : s' = EnvReset(s, f) /\ H(<<"reset", f>>)
  \/ s.tr = "open" /\ ~s.cm /\ ~s.cfg.noise /\ Use(TRUE)
       /\ \E cls \in {"ProtocolAPIError", "RequiresEncryptionAPIError"} : s' = EnvJunk(s, cls) /\ H(<<"junk", cls>>)
  \/ s.di.out = "idle" /\ s.st.out # "idle" /\ Use(TRUE) /\ s' = UserDisconnect(s) /\ H(<<"disconnect">>)
  \/ s.st.out # "idle" /\ Use(TRUE) /\ s' = UserForce(s) /\ H(<<"force">>)
  \/ ~s.wf /\ s.tr = "open" /\ Use(TRUE) /\ s' = SetWriteFail(s, TRUE) /\ H(<<"writefail", TRUE>>)
  \/ Use(TRUE) /\ \E op \in {"start", "finish", "disconnect"} :
        /\ (op = "start" /\ s.st.out = "pending" /\ s.st.wake # "Cancelled") \/ (op = "finish" /\ s.fi.out = "pending" /\ s.fi.wake # "Cancelled")
           \/ (op = "disconnect" /\ s.di.out = "pending" /\ s.di.wake # "Cancelled")
        /\ s' = UserCancel(s, op) /\ H(<<"cancel_op", op>>)
  \/ UseCalls /\ s.cs # "init" /\ Use(FALSE)
       /\ \E id \in UserCalls, mode \in {"single", "list", "filter"} :
            /\ s.cout[id] = "idle" /\ (id = "c1" \/ s.cout["c1"] # "idle")
            /\ \E key \in {1} : s' = UserCall(s, id, mode, key) /\ H(<<"call", id, mode, key>>)
  \/ UseCalls /\ Use(TRUE) /\ \E id \in UserCalls : s.calls[id].st = "pending" /\ s' = CancelCall(s, id) /\ H(<<"cancel_call", id>>)
  \/ UseSubs /\ s.cs = "connected" /\ Use(FALSE)
       /\ \E id \in 1..3, kind \in SubKinds, script \in {"none", "unsub_self", "unsub_other", "sub_new"} :
            /\ ~\E u \in s.subs : u.id = id
            /\ (id = 1 \/ \E u \in s.subs : u.id = id - 1)
            /\ (script = "none" \/ (kind # "*" /\ \A u \in s.subs : u.script = "none"))
            /\ s' = UserSub(s, id, kind, script) /\ H(<<"sub", id, kind, script>>)
  \/ UseSubs /\ Use(FALSE) /\ \E u \in s.subs : u.script = "none" /\ s' = UserUnsub(s, u.id) /\ H(<<"unsub", u.id>>)

Internal ==
  /\ ~e.stop /\ UNCHANGED e
  /\ \/ StartStepEnabled(s) /\ s' = StartStep(s) /\ H(<<"i">>)
     \/ FinishStepEnabled(s) /\ s' = FinishStep(s) /\ H(<<"i">>)
     \/ DiscStepEnabled(s) /\ s' = DiscStep(s) /\ H(<<"i">>)
     \/ \E id \in UserCalls : CallStepEnabled(s, id) /\ s' = CallStep(s, id) /\ H(<<"i">>)
     \/ \E id \in CallIds : CallTimerFireEnabled(s, id) /\ s' = CallTimerFire(s, id) /\ H(<<"i">>)
     \/ HsTimerFireEnabled(s) /\ s' = HsTimerFire(s) /\ H(<<"i">>)
     \/ s.cm /\ s' = ConnMade(s) /\ H(<<"i">>)
     \/ s.lost # "none" /\ s' = ConnLost(s) /\ H(<<"i">>)
     \/ Due(s, "ping") /\ s' = PingFire(s) /\ HK(<<"i", "ping">>) /\ ka' = KATick(PingFire(s))
     \/ Due(s, "pong") /\ s' = PongFire(s) /\ HK(<<"i", "pong">>) /\ ka' = KADeath

\* the loop is idle and nothing is due: virtual time jumps to the next deadline
AdvanceTime ==
  /\ ~e.stop /\ UNCHANGED e /\ H(<<"t">>)
  /\ Quiescent(s) /\ s.tm # {} /\ NothingDue(s)
  /\ s' = [Begin(s) EXCEPT !.now = NextDeadline(s)]

\* while idle, time passes in grid steps (messages may arrive between two deadlines)
EnvWait ==
  /\ Grid > 0 /\ ~e.stop /\ UNCHANGED e /\ H(<<"w", Grid>>)
  /\ Quiescent(s) /\ NothingDue(s) /\ s.tm # {} /\ s.now + Grid <= NextDeadline(s)
  /\ s' = [Begin(s) EXCEPT !.now = s.now + Grid]

\* generation: the story ends here; print its schedule
Stop == /\ GenMode /\ ~e.stop /\ Len(hist) >= 4 /\ Quiescent(s) /\ NothingDue(s)
        /\ e' = [e EXCEPT !.stop = TRUE] /\ UNCHANGED <<s, hist, ev, ka>>
        /\ PrintT(<<"SCHED", ToJson(<<s.cfg, hist, s.naddr>>)>>)

MCNext == Env \/ Internal \/ AdvanceTime \/ EnvWait \/ Stop
MCSpec == MCInit /\ [][MCNext]_mcvars

\* every operation eventually ends once the environment stops (C09, "never hangs")
Fair == WF_mcvars(Internal) /\ WF_mcvars(AdvanceTime)
LiveSpec == MCSpec /\ Fair
NoOpPending == s.st.out # "pending" /\ s.fi.out # "pending" /\ s.di.out # "pending"
               /\ \A i \in UserCalls : s.cout[i] # "pending"
EventuallySettled == <>[]NoOpPending


\* ------------------------------------------------------------ C06
HelloMsgs6 == {[k |-> "hello", major |-> mj, name |-> nm] : mj \in {2, 3}, nm \in {"dev", "oth", ""}}
                \cup {[k |-> "connect", invalid |-> FALSE], [k |-> "connect", invalid |-> TRUE]}

\* ------------------------------------------------------------ C10
K == (CHOOSE c \in Configs : TRUE).K           \* keep-alive slices use one K
PongT == (K * 9) \div 2
\* a ping is written at a tick exactly when no message arrived since the previous tick
PingIffIdle == [][(ev'[1] = "i" /\ Len(ev') = 2 /\ ev'[2] = "ping" /\ s'.cs = "connected")
                    => (("PingRequest" \in Range(s'.w)) <=> ~ka.mst)]_mcvars
\* death exactly 4.5 K after the first ping that was followed by total silence
DeathExact == [][(ev'[1] = "i" /\ Len(ev') = 2 /\ ev'[2] = "pong")
                    => (ka.sp # None /\ s.now = ka.sp + PongT /\ s'.cs = "closed"
                        /\ s'.fatal = "PingFailedAPIError" /\ s'.stops = <<FALSE>>)]_mcvars
\* never later: a session that is still up has not outlived its deadline
NoLateDeath == (TrackKA /\ s.cs = "connected" /\ ka.sp # None) => s.now <= ka.sp + PongT
\* never while the peer talks: the pong timer exists only after a silent ping
PongTimerOnlyAfterSilentPing == TrackKA => (HasTimer(s, "pong") <=> (ka.sp # None /\ s.cs = "connected"))
PongTimerExact == (TrackKA /\ HasTimer(s, "pong")) => TimerAt(s, "pong") = ka.sp + PongT
\* hence: silent since t  =>  dead within (t + 5.5 K, t + 6.5 K]
\* (closed on the left only for the tie: the last message and a tick due at the same instant, message first)
DeathWindow == (TrackKA /\ ka.dat # None) => (2 * (ka.dat - ka.lm) >= 11 * K /\ 2 * (ka.dat - ka.lm) <= 13 * K)
SilentPeerDropped == (TrackKA /\ s.cs = "connected") => 2 * (s.now - ka.lm) <= 13 * K
KAMsgs == {[k |-> "pingresp"], [k |-> "A", key |-> 1], [k |-> "unknown"]}
KAConfigs == {[noise |-> FALSE, exp |-> "none", login |-> FALSE, K |-> 20, hist |-> FALSE]}
KAHorizon == s.now <= 10 * K

\* ------------------------------------------------------------ C11
CallConfigs == {[noise |-> FALSE, exp |-> "none", login |-> FALSE, K |-> 20, hist |-> TRUE]}
CallMsgs == {[k |-> "A", key |-> 1], [k |-> "A", key |-> 2], [k |-> "B"], [k |-> "done"]}
CallConfigsNoHist == {[noise |-> FALSE, exp |-> "none", login |-> FALSE, K |-> 20, hist |-> FALSE]}
CallMsgsBig == CallMsgs \cup {[k |-> "unknown"], [k |-> "discreq"]}

\* ------------------------------------------------------------ C12
DispConfigs == {[noise |-> FALSE, exp |-> "none", login |-> FALSE, K |-> 20, hist |-> FALSE]}
DispMsgs == {[k |-> "A", key |-> 1], [k |-> "B"], [k |-> "unknown"], [k |-> "garbage"], [k |-> "pingreq"],
             [k |-> "timereq"], [k |-> "discreq"]}
Closing(m) == m.k \in {"garbage", "discreq"}
\* frames of a chunk are handled up to and including the first one that closes the connection
ProcLen(ms) == IF \E i \in 1..Len(ms) : Closing(ms[i])
               THEN CHOOSE i \in 1..Len(ms) : Closing(ms[i]) /\ \A j \in 1..i - 1 : ~Closing(ms[j])
               ELSE Len(ms)
KindMatch(u, k) == u.kind = k \/ u.kind = "*"
Scripted(x) == {u \in x.subs : u.script # "none"}
\* is subscriber v registered when the j-th frame of the chunk is dispatched ?  (closed form:
\* at most one scripted subscriber u; its script runs at the first frame it receives)
FirstFor(u, ms, n) == IF \E j \in 1..n : Known(ms[j]) /\ KindMatch(u, ms[j].k)
                      THEN CHOOSE j \in 1..n : Known(ms[j]) /\ KindMatch(u, ms[j].k) /\ \A i \in 1..j - 1 : ~(Known(ms[i]) /\ KindMatch(u, ms[i].k))
                      ELSE 0
RegisteredAt(x, v, j, ms, n) ==
  IF Scripted(x) = {} THEN v \in x.subs
  ELSE LET u == CHOOSE w \in Scripted(x) : TRUE
           f == FirstFor(u, ms, n)
       IN IF v.id = u.id THEN (u.script = "unsub_self" /\ f # 0) => j <= f
          ELSE IF v \in x.subs THEN (u.script = "unsub_other" /\ v.kind = u.kind /\ f # 0) => j <= f
          ELSE \* the subscriber created by sub_new
               u.script = "sub_new" /\ v.id = u.id + 10 /\ f # 0 /\ j > f
Candidates(x) == x.subs \cup {[id |-> u.id + 10, kind |-> u.kind, script |-> "none"] : u \in {w \in Scripted(x) : w.script = "sub_new"}}
RECURSIVE ExpDeliv(_, _, _, _, _)
ExpDeliv(x, ms, n, j, acc) ==
  IF j > n THEN acc
  ELSE IF ~Known(ms[j]) THEN ExpDeliv(x, ms, n, j + 1, acc)
  ELSE LET R == {v \in Candidates(x) : KindMatch(v, ms[j].k) /\ RegisteredAt(x, v, j, ms, n)}
           RECURSIVE Ord(_, _)
           Ord(S, a) == IF S = {} THEN a ELSE LET v == CHOOSE w \in S : \A z \in S : w.id <= z.id IN Ord(S \ {v}, Append(a, <<v.id, ms[j].k>>))
       IN ExpDeliv(x, ms, n, j + 1, Ord(R, acc))
RECURSIVE ExpReplies(_, _, _, _)
ExpReplies(ms, n, j, acc) ==
  IF j > n THEN acc
  ELSE ExpReplies(ms, n, j + 1,
         CASE ms[j].k = "pingreq" -> Append(acc, "PingResponse")
           [] ms[j].k = "timereq" -> Append(acc, "GetTimeResponse")
           [] ms[j].k = "discreq" -> Append(acc, "DisconnectResponse")
           [] OTHER -> acc)
IsChunkStep == ev'[1] = "chunk" /\ CanReceive(s) /\ s.cs = "connected" /\ ~s.wf
DispatchExact == [][IsChunkStep =>
   LET ms == ev'[2] n == ProcLen(ms) IN
     /\ s'.d = ExpDeliv(s, ms, n, 1, <<>>)                      \* once each, arrival order, handlers at that moment
     /\ s'.w = ExpReplies(ms, n, 1, <<>>)                       \* peer requests answered
     /\ (\A i \in 1..Len(ms) : ms[i].k = "unknown") => s' = Begin(s)     \* undefined ids: no effect at all
     /\ (ms[n].k = "garbage") => (s'.cs = "closed" /\ s'.fatal = "ProtocolAPIError" /\ s'.stops = <<FALSE>>)
     /\ (ms[n].k = "discreq") => (s'.cs = "closed" /\ s'.stops = <<TRUE>>)
     /\ (~Closing(ms[n])) => s'.cs = "connected"]_mcvars

\* vacuity guards: each of these must be VIOLATED (reachable) in its slice; checked by ./check selftest
NeverCallOk == \A id \in UserCalls : s.cout[id] # "ok"
NeverCallTimeout == \A id \in UserCalls : s.cout[id] # "TimeoutAPIError"
NeverPingDeath == ka.dat = None
NeverConnected == s.cs # "connected"
NeverDeliveryToNewSub == \A i \in 1..Len(s.d) : s.d[i][1] < 10

Horizon == s.now <= 400

ConnectConfigs == {[noise |-> FALSE, exp |-> "dev", login |-> TRUE, K |-> 20, hist |-> FALSE],
                   [noise |-> TRUE, exp |-> "none", login |-> FALSE, K |-> 20, hist |-> FALSE]}
AllConfigs == {[noise |-> n, exp |-> x, login |-> l, K |-> 20, hist |-> FALSE] : n \in BOOLEAN, x \in {"none", "dev"}, l \in BOOLEAN}
ConnectMsgs == {[k |-> "hello", major |-> 1, name |-> "dev"], [k |-> "hello", major |-> 3, name |-> "dev"],
                [k |-> "hello", major |-> 1, name |-> "oth"], [k |-> "hello", major |-> 1, name |-> ""],
                [k |-> "connect", invalid |-> FALSE], [k |-> "connect", invalid |-> TRUE],
                [k |-> "discreq"], [k |-> "pingreq"], [k |-> "garbage"], [k |-> "unknown"]}
=============================================================================
