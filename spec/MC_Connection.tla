--------------------------- MODULE MC_Connection ---------------------------
(* Bounded instances of Connection.tla: an environment with budgets.       *)
EXTENDS Connection, Json

CONSTANTS Configs,        \* set of [noise, exp, login, K]
          MaxEnv,         \* environment / user events per behaviour
          MaxFaults,      \* of which faults
          Msgs,           \* device message alphabet (records with field k)
          MaxChunk,       \* frames per chunk
          UseCalls, UseSubs,
          GenMode         \* TRUE: behaviours may stop anywhere at rest and print their schedule

VARIABLES e,            \* [n, f] events and faults used so far
          hist          \* generation only: the schedule so far (hidden by VIEW)
mcvars == <<s, e, hist>>
mcview == <<s, e>>
H(tok) == hist' = Append(hist, tok)

Use(fault) == /\ ~e.stop /\ e.n < MaxEnv /\ (fault => e.f < MaxFaults)
              /\ e' = [e EXCEPT !.n = e.n + 1, !.f = IF fault THEN e.f + 1 ELSE e.f]

Chunks == UNION {[1..k -> Msgs] : k \in 1..MaxChunk}

MCInit == /\ \E c \in Configs : s = InitState(c)
          /\ e = [n |-> 0, f |-> 0, stop |-> FALSE] /\ hist = <<>>

Env ==
  \/ s.st.out = "idle" /\ Use(FALSE) /\ s' = UserStart(s) /\ H(<<"start">>)
  \/ s.st.out # "idle" /\ s.st.out # "pending" /\ Use(TRUE) /\ s' = UserStart(s) /\ H(<<"start">>)   \* second attempt on the object
  \/ s.st.pc = "resolve" /\ s.st.wake = "none" /\ s.cs # "closed" /\ Use(FALSE) /\ s' = EnvResolve(s, "ok") /\ H(<<"resolve", "ok">>)
  \/ s.st.pc = "resolve" /\ s.st.wake = "none" /\ s.cs # "closed" /\ Use(TRUE) /\ s' = EnvResolve(s, "ResolveAPIError") /\ H(<<"resolve", "err">>)
  \/ s.st.pc = "tcp" /\ s.st.wake = "none" /\ s.cs # "closed" /\ Use(FALSE) /\ s' = EnvTcp(s, "ok") /\ H(<<"tcp", "ok">>)
  \/ s.st.pc = "tcp" /\ s.st.wake = "none" /\ s.cs # "closed" /\ Use(TRUE) /\ s' = EnvTcp(s, "SocketAPIError") /\ H(<<"tcp", "err">>)
  \/ s.fi.out = "idle" /\ s.st.out = "ok" /\ Use(FALSE) /\ s' = UserFinish(s, s.cfg.login) /\ H(<<"finish", s.cfg.login>>)
  \/ s.cfg.noise /\ s.fh = "made" /\ ~s.cm /\ s.tr = "open" /\ Use(FALSE) /\ s' = EnvHandshake(s, "ok") /\ H(<<"handshake", "ok">>)
  \/ s.cfg.noise /\ s.fh = "made" /\ ~s.cm /\ s.tr = "open" /\ Use(TRUE)
       /\ \E cls \in {"BadNameAPIError", "InvalidEncryptionKeyAPIError", "HandshakeAPIError"} : s' = EnvHandshake(s, cls) /\ H(<<"handshake", cls>>)
  \/ CanReceive(s) /\ Use(FALSE) /\ \E ms \in Chunks : s' = EnvChunk(s, ms) /\ H(<<"chunk", ms>>)
  \/ s.tr = "open" /\ ~s.cm /\ Use(TRUE) /\ s' = EnvEof(s) /\ H(<<"eof">>)
  \/ s.tr = "open" /\ ~s.cm /\ Use(TRUE) /\ s' = EnvReset(s) /\ H(<<"reset">>)
  \/ s.tr = "open" /\ ~s.cm /\ ~s.cfg.noise /\ Use(TRUE)
       /\ \E cls \in {"ProtocolAPIError", "RequiresEncryptionAPIError"} : s' = EnvJunk(s, cls) /\ H(<<"junk", cls>>)
  \/ s.di.out = "idle" /\ s.st.out # "idle" /\ Use(TRUE) /\ s' = UserDisconnect(s) /\ H(<<"disconnect">>)
  \/ s.st.out # "idle" /\ Use(TRUE) /\ s' = UserForce(s) /\ H(<<"force">>)
  \/ ~s.wf /\ s.tr = "open" /\ Use(TRUE) /\ s' = SetWriteFail(s, TRUE) /\ H(<<"writefail", TRUE>>)
  \/ UseCalls /\ s.cs # "init" /\ Use(FALSE)
       /\ \E id \in UserCalls, mode \in {"single", "list", "filter"} :
            /\ s.cout[id] = "idle" /\ (id = "c1" \/ s.cout["c1"] # "idle")
            /\ \E key \in {1, 2} : s' = UserCall(s, id, mode, key) /\ H(<<"call", id, mode, key>>)
  \/ UseCalls /\ Use(TRUE) /\ \E id \in UserCalls : s.calls[id].st = "pending" /\ s' = CancelCall(s, id) /\ H(<<"cancel_call", id>>)
  \/ UseSubs /\ s.cs = "connected" /\ Use(FALSE)
       /\ \E id \in 1..2, script \in {"none", "unsub_self", "unsub_other", "sub_new"} :
            /\ ~\E u \in s.subs : u.id = id
            /\ (script = "none" \/ \A u \in s.subs : u.script = "none")
            /\ s' = UserSub(s, id, "A", script) /\ H(<<"sub", id, "A", script>>)

Internal ==
  /\ ~e.stop /\ UNCHANGED e /\ H(<<"i">>)
  /\ \/ StartStepEnabled(s) /\ s' = StartStep(s)
     \/ FinishStepEnabled(s) /\ s' = FinishStep(s)
     \/ FinishStepAltEnabled(s) /\ s' = FinishStepAlt(s)
     \/ DiscStepEnabled(s) /\ s' = DiscStep(s)
     \/ \E id \in UserCalls : CallStepEnabled(s, id) /\ s' = CallStep(s, id)
     \/ s.cm /\ s' = ConnMade(s)
     \/ s.lost # "none" /\ s' = ConnLost(s)
     \/ Due(s, "ping") /\ s' = PingFire(s)
     \/ Due(s, "pong") /\ s' = PongFire(s)

\* the loop is idle and nothing is due: virtual time jumps to the next deadline
AdvanceTime ==
  /\ ~e.stop /\ UNCHANGED e /\ H(<<"t">>)
  /\ Quiescent(s) /\ s.tm # {} /\ NothingDue(s)
  /\ s' = [Begin(s) EXCEPT !.now = NextDeadline(s)]

\* generation: the story ends here; print its schedule
Stop == /\ GenMode /\ ~e.stop /\ Len(hist) >= 4 /\ Quiescent(s) /\ NothingDue(s)
        /\ e' = [e EXCEPT !.stop = TRUE] /\ UNCHANGED <<s, hist>>
        /\ PrintT(<<"SCHED", ToJson(<<s.cfg, hist>>)>>)

MCNext == Env \/ Internal \/ AdvanceTime \/ Stop
MCSpec == MCInit /\ [][MCNext]_mcvars

\* every operation eventually ends once the environment stops (C09, "never hangs")
Fair == WF_mcvars(Internal) /\ WF_mcvars(AdvanceTime)
LiveSpec == MCSpec /\ Fair
NoOpPending == s.st.out # "pending" /\ s.fi.out # "pending" /\ s.di.out # "pending"
               /\ \A i \in UserCalls : s.cout[i] # "pending"
EventuallySettled == <>[]NoOpPending

Horizon == s.now <= 400

ConnectConfigs == {[noise |-> FALSE, exp |-> "dev", login |-> TRUE, K |-> 20],
                   [noise |-> TRUE, exp |-> "none", login |-> FALSE, K |-> 20]}
ConnectMsgs == {[k |-> "hello", major |-> 1, name |-> "dev"], [k |-> "hello", major |-> 3, name |-> "dev"],
                [k |-> "hello", major |-> 1, name |-> "oth"], [k |-> "hello", major |-> 1, name |-> ""],
                [k |-> "connect", invalid |-> FALSE], [k |-> "connect", invalid |-> TRUE],
                [k |-> "discreq"], [k |-> "pingreq"], [k |-> "garbage"], [k |-> "unknown"]}
=============================================================================
