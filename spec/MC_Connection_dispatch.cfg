CONSTANTS
  TResolve = 30
  TTcp = 60
  THandshake = 30
  THello = 30
  TDiscWait = 5
  TDiscResp = 10
  TCall = 10
  Configs <- DispConfigs
  MaxEnv = 5
  MaxFaults = 0
  Msgs <- DispMsgs
  MaxChunk = 2
  UseCalls = FALSE
  UseSubs = TRUE
  GenMode = FALSE
  StartConnected = TRUE
  Grid = 0
  TrackKA = FALSE
  NAddrs = {1}
  SubKinds = {"A", "*"}
SPECIFICATION MCSpec
VIEW mcview
CONSTRAINT Horizon
INVARIANT ConnectedFlag
INVARIANT StopAtMostOnce
INVARIANT Released
PROPERTY DispatchExact
PROPERTY ClosedFinal
PROPERTY Silent
CHECK_DEADLOCK FALSE
