------------------------------ MODULE Session ------------------------------
(***************************************************************************)
(* What APIClient does on top of an established session: Bluetooth         *)
(* operations matched by address and handle (C16), subscriptions with one  *)
(* converted callback per message, camera reassembly per key and the       *)
(* voice-assistant handshake (C17).  The connection underneath is the one  *)
(* of Connection.tla; here it is just `up` or not.                         *)
(*                                                                         *)
(* Every action is one event-loop callback.  A device chunk is a sequence  *)
(* of messages m = [k, a, h, f, d] (kind, address, handle, flag, datum).   *)
(***************************************************************************)
EXTENDS Naturals, Sequences, FiniteSets, TLC

CONSTANTS TBle,       \* time-out given to every Bluetooth operation (ms)
          TDisc       \* time-out of the disconnect a timed-out connect issues (ms)

VARIABLE s
svars == <<s>>

OpIds == {"o1", "o2", "o3"}
\* subscriber id of the callback an operation registers (user subscriptions use small numbers)
OpNum(i) == CASE i = "o1" -> 101 [] i = "o2" -> 102 [] i = "o3" -> 103
NoOp == [k |-> "none", a |-> 0, h |-> 0, st |-> "none", wake |-> "none", acc |-> <<>>, ph |-> "none", at |-> 0]

SInit == s = [ up |-> TRUE, now |-> 0,
               ops |-> [i \in OpIds |-> NoOp],
               subs |-> {},            \* [id, fam, a, h]   fam: states logs svc hastate adv rawadv free ndata connstate
               img |-> {},             \* camera chunks so far: [sub, key, parts]
               va |-> [on |-> FALSE, mode |-> "none", q |-> <<>>, audio |-> FALSE, cnt |-> 0],
                                       \* q: start handler tasks [st: "pending" | "port" | "noport", n: serial number of the start]
               tm |-> {},              \* armed timers [k, at]
               w |-> <<>>, cb |-> <<>>, dn |-> <<>> ]

Begin(x) == [x EXCEPT !.w = <<>>, !.cb = <<>>, !.dn = <<>>]
Done(x, id, out, res) == [x EXCEPT !.dn = Append(@, <<id, out, res>>)]
Write(x, n) == [x EXCEPT !.w = Append(@, n)]
Timer(k, at) == [k |-> k, at |-> at]
AddTimer(x, k, at) == [x EXCEPT !.tm = {t \in @ : t.k # k} \cup {Timer(k, at)}]
DelTimer(x, k) == [x EXCEPT !.tm = {t \in @ : t.k # k}]
HasTimer(x, k) == \E t \in x.tm : t.k = k
Due(x, k) == \E t \in x.tm : t.k = k /\ t.at <= x.now

\* ----------------------------------------------------------- the op table
GattKinds == {"read", "readdesc", "write", "writedesc", "notify"}
ReqKinds == {"pair", "unpair", "clear"}
Types(k) == CASE k \in {"read", "readdesc"} -> {"read", "gatterr", "conn"}
              [] k \in {"write", "writedesc"} -> {"write", "gatterr", "conn"}
              [] k = "notify" -> {"notify", "gatterr", "conn"}
              [] k = "services" -> {"svc", "svcdone", "gatterr", "conn"}
              [] k = "disconnect" -> {"conn"}
              [] k = "connect" -> {"conn"}          \* only while its own disconnect is outstanding
              [] k = "pair" -> {"conn", "pair"}
              [] k = "unpair" -> {"conn", "unpair"}
              [] k = "clear" -> {"conn", "clear"}
              [] k = "announce" -> {"vafin"}         \* voice-assistant announcement: answered by "announce finished"
              [] OTHER -> {}
Request(k) == CASE k = "read" -> "BluetoothGATTReadRequest" [] k = "readdesc" -> "BluetoothGATTReadDescriptorRequest"
                [] k = "write" -> "BluetoothGATTWriteRequest" [] k = "writedesc" -> "BluetoothGATTWriteDescriptorRequest"
                [] k = "notify" -> "BluetoothGATTNotifyRequest" [] k = "services" -> "BluetoothGATTGetServicesRequest"
                [] k = "announce" -> "VoiceAssistantAnnounceRequest"
                [] OTHER -> "BluetoothDeviceRequest"
\* the response belongs to the operation: same address, and same handle where the message has one
Mine(op, m) ==
  CASE op.k \in GattKinds -> m.a = op.a /\ (m.k = "conn" \/ m.h = op.h)
    [] op.k \in {"disconnect", "connect"} -> m.a = op.a /\ ~m.f          \* a "disconnected" report for the address
    [] op.k = "announce" -> TRUE                                          \* the next "announce finished", whoever else listens
    [] OTHER -> m.a = op.a
Stops(op, m) == IF op.k = "services" THEN m.k \in {"svcdone", "gatterr", "conn"} /\ m.a = op.a ELSE Mine(op, m)
Keeps(op, m) == IF op.k = "services" THEN m.k \in {"svc", "gatterr", "conn"} /\ m.a = op.a ELSE Mine(op, m)
Waiting(op) == op.st = "pending" /\ (op.k # "connect" \/ op.ph = "disc")
OpTake(op, m) ==
  IF ~(Waiting(op) /\ m.k \in Types(op.k)) THEN op
  ELSE LET o1 == IF Keeps(op, m) THEN [op EXCEPT !.acc = Append(@, m)] ELSE op
       IN IF Stops(op, m) THEN [o1 EXCEPT !.st = "woken", !.wake = "ok"] ELSE o1

\* what the caller gets once the operation resumes with its collected responses
Bad(m) == m.k \in {"conn", "gatterr"}
ErrOf(m) == IF m.k = "conn" THEN "BluetoothConnectionDroppedError" ELSE "BluetoothGATTAPIError"
FirstBad(acc) == CHOOSE i \in 1..Len(acc) : Bad(acc[i]) /\ \A j \in 1..i - 1 : ~Bad(acc[j])
Verdict(op) ==
  IF op.k = "disconnect" THEN [out |-> "ok", res |-> <<>>]
  ELSE IF \E i \in 1..Len(op.acc) : Bad(op.acc[i]) THEN [out |-> ErrOf(op.acc[FirstBad(op.acc)]), res |-> <<>>]
  ELSE IF op.k = "services" THEN [out |-> "ok", res |-> [i \in 1..Len(op.acc) |-> op.acc[i].d]]     \* the "done" marker is not kept
  ELSE IF op.k \in {"read", "readdesc", "announce"} THEN [out |-> "ok", res |-> <<op.acc[1].d>>]
  ELSE [out |-> "ok", res |-> <<>>]

\* ---------------------------------------------------------- subscriptions
SubsOf(x, fam) == {u \in x.subs : u.fam = fam}
RECURSIVE FireAll(_, _, _, _)
\* one callback per subscriber, in subscriber order: <<subscriber, kind, datum, parts>>.  A subscriber
\* registered `once` unsubscribes itself from inside its callback (the delivery in progress is not disturbed).
FireAll(x, S, kind, d) ==
  IF S = {} THEN x
  ELSE LET u == CHOOSE v \in S : \A v2 \in S : v.id <= v2.id
           x1 == [x EXCEPT !.cb = Append(@, <<u.id, kind, d, <<>> >>)]
           x2 == IF u.once /\ u \in x1.subs
                 THEN LET y == [x1 EXCEPT !.subs = @ \ {u}] IN
                      IF u.fam \in {"adv", "rawadv"} THEN [y EXCEPT !.w = Append(@, "UnsubscribeBluetoothLEAdvertisementsRequest")] ELSE y
                 ELSE x1
       IN FireAll(x2, S \ {u}, kind, d)
\* Home-assistant state subscriptions: a one-shot request (m.f) goes to the subscriber's request handler if it
\* gave one (family "hastate"), otherwise - like every other message - to its subscription handler ("hastate1")
RECURSIVE FireHa(_, _, _)
FireHa(x, S, m) ==
  IF S = {} THEN x
  ELSE LET u == CHOOSE v \in S : \A v2 \in S : v.id <= v2.id
       IN FireHa([x EXCEPT !.cb = Append(@, <<u.id, IF m.f /\ u.fam = "hastate" THEN "hastate_once" ELSE "hastate", m.d, <<>> >>)], S \ {u}, m)
\* Connection-state callbacks (handed to bluetooth_device_connect).  One registered `once` drops its own
\* subscription from inside the callback when it is told "disconnected" - possible only once the connect call has
\* returned the unsubscribe function - without disturbing the delivery in progress.
OpOfNum(n) == CASE n = 101 -> "o1" [] n = 102 -> "o2" [] n = 103 -> "o3"
RECURSIVE FireConn(_, _, _)
FireConn(x, S, m) ==
  IF S = {} THEN x
  ELSE LET u == CHOOSE v \in S : \A v2 \in S : v.id <= v2.id
           x1 == [x EXCEPT !.cb = Append(@, <<u.id, IF m.f THEN "connected" ELSE "disconnected", m.a, <<>> >>)]
           x2 == IF u.once /\ ~m.f /\ u \in x1.subs /\ x.ops[OpOfNum(u.id)].st = "none" THEN [x1 EXCEPT !.subs = @ \ {u}] ELSE x1
       IN FireConn(x2, S \ {u}, m)
Parts(x, u, key) == IF \E r \in x.img : r.sub = u.id /\ r.key = key
                    THEN (CHOOSE r \in x.img : r.sub = u.id /\ r.key = key).parts ELSE <<>>
RECURSIVE Camera(_, _, _)
Camera(x, S, m) ==
  IF S = {} THEN x
  ELSE LET u == CHOOSE v \in S : \A v2 \in S : v.id <= v2.id
           \* m.d = entity key, m.h = chunk id (0: a chunk without data), m.f = done
           parts == IF m.h = 0 THEN Parts(x, u, m.d) ELSE Append(Parts(x, u, m.d), m.h)
           rest == {r \in x.img : ~(r.sub = u.id /\ r.key = m.d)}
           y == IF m.f THEN [x EXCEPT !.img = rest, !.cb = Append(@, <<u.id, "Camera", m.d, parts>>)]
                ELSE [x EXCEPT !.img = rest \cup {[sub |-> u.id, key |-> m.d, parts |-> parts]}]
       IN Camera(y, S \ {u}, m)

\* one incoming message
Dispatch(x, m) ==
  IF ~x.up THEN x
  ELSE
  LET x1 == [x EXCEPT !.ops = [i \in OpIds |-> OpTake(x.ops[i], m)]] IN
  CASE m.k = "state" -> FireAll(x1, SubsOf(x1, "states"), m.t, m.d)       \* m.t: the model the message converts to
    [] m.k = "cam" -> Camera(x1, SubsOf(x1, "states"), m)
    [] m.k = "log" -> FireAll(x1, SubsOf(x1, "logs"), "log", m.d)
    [] m.k = "hasvc" -> FireAll(x1, SubsOf(x1, "svc"), "hasvc", m.d)
    [] m.k = "hastate" -> FireHa(x1, SubsOf(x1, "hastate") \cup SubsOf(x1, "hastate1"), m)
    [] m.k = "adv" -> FireAll(x1, SubsOf(x1, "adv"), "adv", m.d)
    [] m.k = "rawadv" -> FireAll(x1, SubsOf(x1, "rawadv"), "rawadv", m.d)
    [] m.k = "free" -> FireAll(x1, SubsOf(x1, "free"), "free", m.d)
    [] m.k = "ndata" -> FireAll(x1, {u \in SubsOf(x1, "ndata") : u.a = m.a /\ u.h = m.h}, "ndata", m.d)
    \* (the connect operation itself resolves on ANY report for its address: ConnectTake)
    [] m.k = "conn" -> FireConn(x1, {u \in SubsOf(x1, "connstate") : u.a = m.a}, m)
    [] m.k = "vareq" ->
         IF ~x1.va.on THEN x1
         ELSE IF m.f THEN      \* start: a handler task starts eagerly; its answer is written when it is done
                \* (modes "block" / "gated": the handler is still running; a gated one ends in VaRelease)
                [x1 EXCEPT !.cb = Append(@, <<0, "va_start", m.d, <<>> >>),
                           !.va.q = Append(@, [st |-> IF x1.va.mode \in {"port", "noport"} THEN x1.va.mode ELSE "pending", n |-> x1.va.cnt + 1]),
                           !.va.cnt = @ + 1]
              ELSE [x1 EXCEPT !.cb = Append(@, <<0, "va_stop", 1, <<>> >>)]
    [] m.k = "vaaudio" ->
         IF ~(x1.va.on /\ x1.va.audio) THEN x1
         ELSE IF m.f THEN [x1 EXCEPT !.cb = Append(@, <<0, "va_stop", 0, <<>> >>)]
              ELSE [x1 EXCEPT !.cb = Append(@, <<0, "va_audio", m.d, <<>> >>)]
    [] m.k = "vafin" -> IF x1.va.on THEN [x1 EXCEPT !.cb = Append(@, <<0, "va_fin", m.d, <<>> >>)] ELSE x1
    [] OTHER -> x1

\* connect operations waiting for their first report
ConnectTake(x, m) ==
  [x EXCEPT !.ops = [i \in OpIds |->
      IF x.ops[i].k = "connect" /\ x.ops[i].st = "pending" /\ x.ops[i].ph = "conn" /\ m.k = "conn" /\ m.a = x.ops[i].a
         /\ \E u \in x.subs : u.fam = "connstate" /\ u.id = OpNum(i)
      THEN [x.ops[i] EXCEPT !.st = "woken", !.wake = "ok"] ELSE x.ops[i]]]

RECURSIVE Chunk(_, _)
Chunk(x, ms) == IF ms = <<>> THEN x ELSE Chunk(Dispatch(ConnectTake(x, Head(ms)), Head(ms)), Tail(ms))
EnvChunk(x0, ms) == Chunk(Begin(x0), ms)

\* A voice-assistant start handler finished: its own answer - the port IT returned (here 12000 + its serial
\* number) or an error - is written in a later callback, whatever other starts are running or have finished.
\* Entry states: "pending" (handler running) -> "w_port" / "w_noport" (its gate was released, the task has not
\* resumed yet - it can still be cancelled) -> "port" / "noport" (the task is done) -> answer written, entry removed.
Woken(t) == t.st \in {"w_port", "w_noport"}
VaDone(x) == {j \in 1..Len(x.va.q) : x.va.q[j].st \in {"port", "noport"}}
VaWoken(x) == {j \in 1..Len(x.va.q) : Woken(x.va.q[j])}
VaStartedEnabled(x) == x.up /\ VaDone(x) # {}
VaStarted(x0, j) ==
  LET x == Begin(x0)
      y == [x EXCEPT !.va.q = SubSeq(@, 1, j - 1) \o SubSeq(@, j + 1, Len(@))]
  IN Write(y, IF x.va.q[j].st = "port" THEN "VoiceAssistantResponse:port:" \o ToString(x.va.q[j].n) ELSE "VoiceAssistantResponse:error")
\* the application's handler of start number n is allowed to return (res: "port" | "noport") ...
VaRelease(x0, n, res) ==
  [Begin(x0) EXCEPT !.va.q = [j \in 1..Len(@) |-> IF @[j].n = n /\ @[j].st = "pending"
                                                   THEN [@[j] EXCEPT !.st = IF res = "port" THEN "w_port" ELSE "w_noport"] ELSE @[j]]]
\* ... and its task resumes and ends (a callback of its own, nothing observable yet)
VaHandlerStep(x0, j) ==
  [Begin(x0) EXCEPT !.va.q[j].st = IF @ = "w_port" THEN "port" ELSE "noport"]

\* ------------------------------------------------------------- user calls
\* number of distinct callbacks registered with the connection: 3 internal ones, one per subscription,
\* the voice-assistant handlers, one per operation that is waiting for responses
Handlers(x) == 3 + Cardinality(x.subs)
               + (IF x.va.on THEN (IF x.va.audio THEN 3 ELSE 2) ELSE 0)
               + Cardinality({i \in OpIds : x.ops[i].st \in {"pending", "woken"} /\ (x.ops[i].k # "connect" \/ x.ops[i].ph = "disc")})
OpTimer(i) == CASE i = "o1" -> "op:o1" [] i = "o2" -> "op:o2" [] i = "o3" -> "op:o3"

UserOp(x0, i, k, a, h) ==
  LET x == Begin(x0) IN
  IF ~x.up THEN Done(x, i, "ANY", <<>>)
  ELSE IF k \in {"writenr"} THEN Done(Write(x, "BluetoothGATTWriteRequest"), i, "ok", <<>>)
  ELSE
   \* "connect_auto": a connect whose state callback unsubscribes itself when told "disconnected"
   LET kk == IF k = "connect_auto" THEN "connect" ELSE k
       op == [k |-> kk, a |-> a, h |-> h, st |-> "pending", wake |-> "none", acc |-> <<>>,
              ph |-> IF kk = "connect" THEN "conn" ELSE "none", at |-> x.now + TBle]
       x1 == AddTimer(Write([x EXCEPT !.ops[i] = op], Request(kk)), OpTimer(i), x.now + TBle)
   IN CASE kk = "notify"  -> [x1 EXCEPT !.subs = @ \cup {[id |-> OpNum(i), fam |-> "ndata", a |-> a, h |-> h, once |-> FALSE]}]
        [] kk = "connect" -> [x1 EXCEPT !.subs = @ \cup {[id |-> OpNum(i), fam |-> "connstate", a |-> a, h |-> 0, once |-> (k = "connect_auto")]}]
        [] OTHER -> x1

OpTimerFire(x0, i) ==
  LET x == Begin(x0) IN
  IF x.ops[i].st = "pending"
  THEN DelTimer([x EXCEPT !.ops[i].st = "woken", !.ops[i].wake = "TimeoutAPIError"], OpTimer(i))
  ELSE DelTimer(x, OpTimer(i))

DropSub(x, i, fam) == [x EXCEPT !.subs = {u \in @ : ~(u.id = OpNum(i) /\ u.fam = fam)}]

OpStep(x0, i) ==
  LET x == Begin(x0) op == x.ops[i]
      fin(y, out, res) == Done(DelTimer([y EXCEPT !.ops[i] = NoOp], OpTimer(i)), i, out, res)
  IN
  IF op.k = "connect" THEN
     IF op.ph = "conn" THEN
        IF op.wake = "ok" THEN fin(x, "ok", <<>>)                        \* the state callback stays subscribed
        ELSE IF op.wake = "TimeoutAPIError" /\ x.up THEN
             \* unsubscribe first, then disconnect that address, then report the time-out
             LET y == Write(DropSub(x, i, "connstate"), "BluetoothDeviceRequest")
             IN AddTimer([y EXCEPT !.ops[i] = [op EXCEPT !.st = "pending", !.wake = "none", !.ph = "disc", !.at = x.now + TDisc]],
                         OpTimer(i), x.now + TDisc)
        ELSE fin(DropSub(x, i, "connstate"), IF op.wake = "TimeoutAPIError" THEN "ANY" ELSE op.wake, <<>>)
     ELSE \* the disconnect of a timed-out connect ended: answered or timed out -> the time-out error;
          \* cancelled / connection lost meanwhile -> that
        fin(x, IF op.wake \in {"ok", "TimeoutAPIError"} THEN "TimeoutAPIError" ELSE op.wake, <<>>)
  ELSE IF op.wake = "ok" THEN
     LET v == Verdict(op)
         y == IF op.k = "notify" /\ v.out # "ok" THEN DropSub(x, i, "ndata") ELSE x
     IN fin(y, v.out, v.res)
  ELSE fin(IF op.k = "notify" THEN DropSub(x, i, "ndata") ELSE x, op.wake, <<>>)
OpStepEnabled(x, i) == x.ops[i].st = "woken"

CancelOp(x0, i) ==
  LET x == Begin(x0) IN
  IF x.ops[i].st = "none" THEN x ELSE [x EXCEPT !.ops[i].st = "woken", !.ops[i].wake = "Cancelled"]

\* what a successful connect / notify hands back to the caller
ConnUnsub(x0, i) == DropSub(Begin(x0), i, "connstate")
NotifyRemove(x0, i) == DropSub(Begin(x0), i, "ndata")
NotifyStop(x0, i, a, h) == LET x == Begin(x0) IN IF x.up THEN Write(DropSub(x, i, "ndata"), "BluetoothGATTNotifyRequest") ELSE x

SubRequest(fam) == CASE fam = "states" -> "SubscribeStatesRequest" [] fam = "logs" -> "SubscribeLogsRequest"
                     [] fam = "svc" -> "SubscribeHomeassistantServicesRequest" [] fam \in {"hastate", "hastate1"} -> "SubscribeHomeAssistantStatesRequest"
                     [] fam \in {"adv", "rawadv"} -> "SubscribeBluetoothLEAdvertisementsRequest"
                     [] fam = "free" -> "SubscribeBluetoothConnectionsFreeRequest"
UserSub(x0, id, fam, once) ==
  LET x == Begin(x0) IN
  IF ~x.up THEN x ELSE Write([x EXCEPT !.subs = @ \cup {[id |-> id, fam |-> fam, a |-> 0, h |-> 0, once |-> once]}], SubRequest(fam))
\* the unsubscribe functions the API hands out (advertisements also tell the device)
UserUnsub(x0, id, fam) ==
  LET x == Begin(x0) y == [x EXCEPT !.subs = {u \in @ : u.id # id}, !.img = {r \in @ : r.sub # id}] IN
  IF ~x.up THEN x
  ELSE IF fam \in {"adv", "rawadv"} THEN Write(y, "UnsubscribeBluetoothLEAdvertisementsRequest") ELSE y

VaSubscribe(x0, mode, audio) ==
  LET x == Begin(x0) IN
  IF ~x.up THEN x ELSE Write([x EXCEPT !.va = [on |-> TRUE, mode |-> mode, q |-> @.q, audio |-> audio, cnt |-> @.cnt]], "SubscribeVoiceAssistantRequest")
VaUnsub(x0) ==
  LET x == Begin(x0)
      \* the most recent start handler is cancelled if it is still running: no answer; earlier ones run on
      y == [x EXCEPT !.va.on = FALSE,
                     !.va.q = SelectSeq(@, LAMBDA t : ~(t.n = x.va.cnt /\ (t.st = "pending" \/ Woken(t))))] IN
  IF x.up THEN Write(y, "SubscribeVoiceAssistantRequest") ELSE y

\* the connection goes away: every waiting operation fails with the connection's error
EnvClose(x0) ==
  LET x == Begin(x0) IN
  [x EXCEPT !.up = FALSE,
            \* (a connect still waiting for its first report is not a response waiter: it runs into its time-out)
            !.ops = [i \in OpIds |-> IF Waiting(x.ops[i]) THEN [x.ops[i] EXCEPT !.st = "woken", !.wake = "ANY"] ELSE x.ops[i]]]

NextDeadline(x) == (CHOOSE t \in x.tm : \A u \in x.tm : t.at <= u.at).at
NothingDue(x) == \A t \in x.tm : t.at > x.now
Quiescent(x) == (\A i \in OpIds : ~OpStepEnabled(x, i)) /\ ~VaStartedEnabled(x) /\ VaWoken(x) = {}

\* ============================================================ PROPERTIES
\* C16: an operation is completed only by a message carrying its address (and handle)
NoCrossTalk ==
  \A i \in OpIds : LET op == s.ops[i] IN
     \A j \in 1..Len(op.acc) : op.acc[j].a = op.a /\ (op.k \in GattKinds /\ op.acc[j].k # "conn" => op.acc[j].h = op.h)
\* every finished operation leaves nothing subscribed, except what the API documents as staying
NothingLeft ==
  \A i \in OpIds : s.ops[i].st = "none" =>
     /\ ~HasTimer(s, OpTimer(i))
\* C17: camera parts are kept per subscription and key only while an image is incomplete
ImgKeysUnique == \A r1, r2 \in s.img : (r1.sub = r2.sub /\ r1.key = r2.key) => r1 = r2
=============================================================================
