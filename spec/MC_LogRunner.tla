--------------------------- MODULE MC_LogRunner ---------------------------
EXTENDS LogRunner
CONSTANT MaxSteps
VARIABLE k
mvars == <<lr, k>>
MInit == LInit /\ k = 0
Step(S) == k < MaxSteps /\ k' = k + 1 /\ lr' \in S
MNext == Step(SessionUp(lr)) \/ Step(SessionDown(lr)) \/ (\E n \in {1, 2} : Step(Log(lr, n))) \/ Step(Stop(lr))
MSpec == MInit /\ [][MNext]_mvars
=============================================================================
