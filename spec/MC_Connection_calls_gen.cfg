CONSTANTS
  TResolve = 30
  TTcp = 60
  THandshake = 30
  THello = 30
  TDiscWait = 5
  TDiscResp = 10
  TCall = 10
  Configs <- CallConfigsNoHist
  MaxEnv = 3
  MaxFaults = 1
  Msgs <- CallMsgsBig
  MaxChunk = 2
  UseCalls = TRUE
  UseSubs = FALSE
  GenMode = TRUE
  StartConnected = TRUE
  Grid = 0
  TrackKA = FALSE
  NAddrs = {1}
  SubKinds = {"A"}
SPECIFICATION MCSpec
VIEW mcview
CONSTRAINT Horizon
CHECK_DEADLOCK FALSE
