------------------------------- MODULE Wire -------------------------------
(***************************************************************************)
(* The documented ESPHome native-API wire format (api.proto:70-85 and the  *)
(* Noise framing used by ESPHome), written from the documentation, not     *)
(* from the Python encoder.  Pure operators; no state.                     *)
(***************************************************************************)
EXTENDS Naturals, Sequences

\* minimal little-endian base-128 encoding of a natural number
RECURSIVE Varint(_)
Varint(n) == IF n < 128 THEN <<n>> ELSE <<(n % 128) + 128>> \o Varint(n \div 128)

\* decoder: start at position p of bytes; ok = FALSE when the bytes run out
RECURSIVE DecVarintFrom(_, _, _, _)
DecVarintFrom(bytes, p, acc, mult) ==
  IF p > Len(bytes) THEN [ok |-> FALSE, val |-> 0, next |-> p]
  ELSE IF bytes[p] < 128 THEN [ok |-> TRUE, val |-> acc + bytes[p] * mult, next |-> p + 1]
  ELSE DecVarintFrom(bytes, p + 1, acc + (bytes[p] - 128) * mult, mult * 128)
DecVarint(bytes, p) == DecVarintFrom(bytes, p, 0, 1)

\* plaintext frame: zero byte, varint payload length, varint type, payload
PlainHeader(type, plen) == <<0>> \o Varint(plen) \o Varint(type)

\* Noise frame: 0x01, 16-bit big-endian length of the ciphertext
NoiseOuter(clen) == <<1, clen \div 256, clen % 256>>
\* plaintext inside the AEAD: 16-bit type, 16-bit payload length, payload
NoiseInner(type, plen) == <<type \div 256, type % 256, plen \div 256, plen % 256>>
\* ChaCha20-Poly1305 adds a 16 byte tag
CtLen(plen) == 4 + plen + 16
\* client hello: an empty Noise frame (selector), then the handshake frame
\* whose body is 0x00 followed by the Noise handshake message
ClientHelloPrefix == <<1, 0, 0>>

\* Sanity theorems, evaluated by TLC when the module is loaded by a model
VarintBoundaries ==
  /\ Varint(0) = <<0>>
  /\ Varint(127) = <<127>>
  /\ Varint(128) = <<128, 1>>
  /\ Varint(300) = <<172, 2>>
  /\ Varint(16383) = <<255, 127>>
  /\ Varint(16384) = <<128, 128, 1>>
  /\ Varint(2097151) = <<255, 255, 127>>
  /\ Varint(2097152) = <<128, 128, 128, 1>>
VarintRoundTrip(S) == \A n \in S : LET d == DecVarint(Varint(n), 1) IN
                          d.ok /\ d.val = n /\ d.next = Len(Varint(n)) + 1
=============================================================================
