---------------------------- MODULE TraceClient ----------------------------
(***************************************************************************)
(* Trace validation for Client.tla.  One row per event-loop callback of a  *)
(* run of the real APIClient that was a user call or changed anything      *)
(* observable:  c cause, a arguments, pi index of the connection object    *)
(* APIClient._connection points to (0 = None), sts the visible state of    *)
(* every connection object created so far, dn user operations that ended   *)
(* <<op, class, is-connection-error>>, wn frames written in this callback. *)
(***************************************************************************)
EXTENDS Client, Json, IOUtils

Traces == JsonDeserialize(IOEnv.TRACE_FILE)
NT == Len(Traces)
ASSUME \A i \in 1..NT : TLCSet(i, 0)

VARIABLES tid, l
tvars == <<c, tid, l>>
T == Traces[tid]

TInit == tid \in 1..NT /\ l = 1 /\ CInitHN(T.cfg.hook, T.cfg.noise)

\* operations of the connection-management API must match one to one; API calls are compared
\* only when the gate refused them
Mgmt(dn) == SelectSeq(dn, LAMBDA d : d[1] # "api")
ClassOK(m, d) == \/ m[2] = d[2]
                 \/ (m[2] = "ANY" /\ d[3])
                 \/ (m[2] = "ANY-" /\ d[3] /\ d[2] # "BadNameAPIError")      \* any connection error but the bad-name one
SameOps(md, ed) ==
  /\ Len(md) = Len(ed)
  /\ \A i \in 1..Len(md) : \E j \in 1..Len(ed) : md[i][1] = ed[j][1] /\ ClassOK(md[i], ed[j])
  /\ \A j \in 1..Len(ed) : \E i \in 1..Len(md) : md[i][1] = ed[j][1] /\ ClassOK(md[i], ed[j])
Apis(dn) == SelectSeq(dn, LAMBDA d : d[1] = "api")

Match(y, e) ==
  /\ y.ptr = e.pi
  /\ y.st = e.sts
  /\ y.sa = e.sa                     \* ... and with the right reason each time
  /\ y.nstop = e.ns                  \* the application's stop callback: once per ended session, never otherwise
  /\ SameOps(Mgmt(y.dn), Mgmt(e.dn))
  \* a refused API call raised a connection error in this very callback and wrote nothing
  /\ (y.gate = "shut") => (e.wn = 0 /\ Len(Apis(e.dn)) = 1 /\ Apis(e.dn)[1][3])
  \* a command issued from the stop callback: refused likewise; the callback itself may have written the
  \* frames of the disconnect, but never the command
  /\ (y.gate = "shut_in_stop") => (Len(Apis(e.dn)) = Len(Apis(y.dn)) /\ (\A k \in 1..Len(Apis(e.dn)) : Apis(e.dn)[k][3])
                                   /\ \A k \in 1..Len(e.w) : e.w[k] # "SwitchCommandRequest")
  \* a call whose write failed: a connection error in this very callback
  /\ (y.gate = "failed") => (Len(Apis(e.dn)) = 1 /\ Apis(e.dn)[1][3])

Diff(y, e) ==
  (IF y.ptr # e.pi THEN {"pi"} ELSE {}) \cup (IF y.st # e.sts THEN {"sts"} ELSE {}) \cup (IF y.nstop # e.ns THEN {"ns"} ELSE {}) \cup (IF y.sa # e.sa THEN {"sa"} ELSE {}) \cup
  (IF ~SameOps(Mgmt(y.dn), Mgmt(e.dn)) THEN {"dn"} ELSE {}) \cup
  (IF y.gate = "shut" /\ ~(e.wn = 0 /\ Len(Apis(e.dn)) = 1 /\ Apis(e.dn)[1][3]) THEN {"gate"} ELSE {}) \cup
  (IF y.gate = "shut_in_stop" /\ ~(Len(Apis(e.dn)) = Len(Apis(y.dn)) /\ (\A k \in 1..Len(Apis(e.dn)) : Apis(e.dn)[k][3])
                                  /\ \A k \in 1..Len(e.w) : e.w[k] # "SwitchCommandRequest")
   THEN {"gate"} ELSE {}) \cup
  (IF y.gate = "failed" /\ ~(Len(Apis(e.dn)) = 1 /\ Apis(e.dn)[1][3]) THEN {"gate"} ELSE {})

Internal(x) ==
  UNION {PhaseEnd(x, j, "ok") \cup PhaseEnd(x, j, "err") \cup PhaseEnd(x, j, "badname") : j \in 1..Len(x.phs)} \cup Progress(x) \cup Noop(x)
  \cup UNION {EnvClose(x, i) : i \in 1..N(x)} \cup UNION {DiscEnd(x, i) : i \in 1..N(x)} \cup UNION {DiscProceed(x, i) : i \in 1..N(x)}
  \* (a disconnect() that goes on and whose request cannot be written any more ends in the same callback)
  \cup UNION {UNION {DiscEnd(y, i) : y \in DiscProceed(x, i)} : i \in 1..N(x)}

Apply(x, e) ==
  CASE e.c = "UserStart"      -> UserStart(x)
    [] e.c = "UserConnect"    -> UserConnect(x)
    [] e.c = "UserFinish"     -> UserFinish(x)
    [] e.c = "UserDisconnect" -> UserDisconnect(x, e.a.force)
    [] e.c = "UserApi"        -> UserApi(x)
    \* the peer closed the socket of connection i (0: a transport whose connection had let go of it already):
    \* a connection that is alive does not survive that
    [] e.c = "UserExpect"     -> UserExpect(x, e.a.n)
    \* (the chunk that carries it may carry more: whatever else a device chunk can cause is allowed in the same callback)
    [] e.c = "EnvHello"       -> LET Y == EnvHello(x, e.a.i, e.a.n) IN Y \cup UNION {Internal(y) : y \in Y}
    [] e.c = "EnvDiscReq"     -> EnvDiscReq(x, e.a.i)
    [] e.c = "EnvWriteFail"   -> EnvWriteFail(x, e.a.i)
    [] e.c = "EnvReset"       -> EnvReset(x, e.a.i)
    [] e.c = "EnvLoss"        -> IF e.a.i = 0 \/ x.st[e.a.i] = "closed" THEN Internal(x) ELSE EnvClose(x, e.a.i)
    [] OTHER                  -> Internal(x)          \* environment events, library callbacks, idle points

TStep ==
  /\ l <= Len(T.rows)
  /\ LET e == T.rows[l] IN
       \/ \E y \in Apply(c, e) : Match(y, e) /\ c' = y
       \/ /\ ~\E y \in Apply(c, e) : Match(y, e)
          /\ PrintT(<<"DIAG", tid, l, IF Apply(c, e) = {} THEN {{"not_enabled"}} ELSE {Diff(y, e) : y \in Apply(c, e)}>>)
          /\ FALSE
  /\ l' = l + 1 /\ UNCHANGED tid

TSpec == TInit /\ [][TStep]_tvars
Prog == TLCSet(tid, IF TLCGet(tid) < l THEN l ELSE TLCGet(tid))
Accepted == \A i \in 1..NT :
   IF TLCGet(i) = Len(Traces[i].rows) + 1 THEN TRUE ELSE PrintT(<<"REJECT", i, TLCGet(i)>>)
=============================================================================
