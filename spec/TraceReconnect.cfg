SPECIFICATION TSpec
CONSTRAINT Prog
INVARIANT OneAtATime
INVARIANT StoppedMeansQuiet
POSTCONDITION Accepted
CHECK_DEADLOCK FALSE
