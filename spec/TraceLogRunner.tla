-------------------------- MODULE TraceLogRunner --------------------------
(* Trace validation for LogRunner.tla: rows <<"sub", dump>> <<"log", n>> <<"down">> <<"stop_ret">> of a run of the real *)
(* log_runner.async_run on the real ReconnectLogic / APIClient over the simulated network.                              *)
EXTENDS LogRunner, Json, IOUtils
Traces == JsonDeserialize(IOEnv.TRACE_FILE)
NT == Len(Traces)
ASSUME \A i \in 1..NT : TLCSet(i, 0)
VARIABLES tid, l
tvars == <<lr, tid, l>>
T == Traces[tid]
TInit == tid \in 1..NT /\ l = 1 /\ LInit
Cand(x, e) == CASE e[1] = "sub"      -> {y \in SessionUp(x) : y.ev = <<e>>}
                [] e[1] = "log"      -> {y \in Log(x, e[2]) : y.ev = <<e>>}
                [] e[1] = "down"     -> SessionDown(x)
                [] e[1] = "stop_ret" -> {y \in Stop(x) : y.ev = <<e>>}
                [] OTHER             -> {}
TStep == /\ l <= Len(T.rows)
         /\ \E y \in Cand(lr, T.rows[l].e) : lr' = y
         /\ l' = l + 1 /\ UNCHANGED tid
TSpec == TInit /\ [][TStep]_tvars
Prog == TLCSet(tid, IF TLCGet(tid) < l THEN l ELSE TLCGet(tid))
Accepted == \A i \in 1..NT : IF TLCGet(i) = Len(Traces[i].rows) + 1 THEN TRUE ELSE PrintT(<<"REJECT", i, TLCGet(i)>>)
=============================================================================
