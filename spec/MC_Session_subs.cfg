CONSTANTS
  TBle = 30000
  TDisc = 20000
  MaxSteps = 4
  OpKinds = {}
  Msgs <- SubMsgs
  MaxChunk = 2
  UseSubs = TRUE
SPECIFICATION MSpec
CONSTRAINT Horizon
INVARIANT ImgKeysUnique
INVARIANT CameraConcat
PROPERTY OnePerMessage
CHECK_DEADLOCK FALSE
