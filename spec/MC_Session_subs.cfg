CONSTANTS
  TBle = 30000
  TDisc = 20000
  MaxSteps = 4
  OpKinds = {"announce"}
  Msgs <- SubMsgs
  MaxChunk = 2
  GenMode = FALSE
  UseSubs = TRUE
SPECIFICATION MSpec
VIEW mview
CONSTRAINT Horizon
INVARIANT ImgKeysUnique
INVARIANT CameraConcat
PROPERTY OnePerMessage
CHECK_DEADLOCK FALSE
