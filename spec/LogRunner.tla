----------------------------- MODULE LogRunner -----------------------------
(***************************************************************************)
(* log_runner.async_run: a ReconnectLogic (Reconnect.tla) whose on_connect *)
(* subscribes to the device's logs - asking for the configuration dump     *)
(* only the first time - and a stop function that stops the manager and    *)
(* disconnects the client.  No listed property is about it; the module     *)
(* extends the specification to the last stateful piece of the library.    *)
(* Unit: the observable event (as in Reconnect.tla).                       *)
(***************************************************************************)
EXTENDS Naturals, Sequences, TLC

VARIABLE lr
LInit == lr = [up |-> FALSE, dumped |-> FALSE, stopped |-> FALSE, nsub |-> 0, ev |-> <<>>]
Begin(x) == [x EXCEPT !.ev = <<>>]
Emit(x, e) == [x EXCEPT !.ev = Append(@, e)]

\* a session is established: the logs are subscribed to, with the configuration dump exactly the first time
SessionUp(x0) == LET x == Begin(x0) IN
  IF x.up \/ x.stopped THEN {} ELSE {Emit([x EXCEPT !.up = TRUE, !.dumped = TRUE, !.nsub = @ + 1], <<"sub", ~x.dumped>>)}
\* the session ends (peer, fault): the manager will reconnect
SessionDown(x0) == LET x == Begin(x0) IN IF x.up THEN {[x EXCEPT !.up = FALSE]} ELSE {x}
\* a log line of the device reaches the handler, once, while a session is up
Log(x0, n) == LET x == Begin(x0) IN IF x.up THEN {Emit(x, <<"log", n>>)} ELSE {}
\* the stop function returns: manager stopped, client disconnected - nothing is subscribed any more, ever
Stop(x0) == LET x == Begin(x0) IN IF x.stopped THEN {} ELSE {Emit([x EXCEPT !.up = FALSE, !.stopped = TRUE], <<"stop_ret">>)}

\* the configuration dump is requested by the first subscription only
DumpOnce == [][\A i \in 1..Len(lr'.ev) : lr'.ev[i] = <<"sub", TRUE>> => lr.nsub = 0]_lr
QuietAfterStop == [][lr.stopped => lr'.ev = <<>>]_lr
=============================================================================
