CONSTANTS
  TResolve = 30000
  TTcp = 60000
  THandshake = 30000
  THello = 30000
  TDiscWait = 5000
  TDiscResp = 10000
  TCall = 10000
SPECIFICATION TSpec
CONSTRAINT Prog
POSTCONDITION Accepted
CHECK_DEADLOCK FALSE
