SPECIFICATION Spec
INVARIANT ProtoIdsContiguous
INVARIANT TableEqualsProto
INVARIANT PositionalLookup
INVARIANT InverseMap
INVARIANT DescriptorsAgree
INVARIANT DecodedAs
INVARIANT SentOK
INVARIANT SubscribedOK
CHECK_DEADLOCK FALSE
