CONSTANTS
  TResolve = 30
  TTcp = 60
  THandshake = 30
  THello = 30
  TDiscWait = 5
  TDiscResp = 10
  TCall = 10
  Configs <- ConnectConfigs
  MaxEnv = 7
  MaxFaults = 2
  Msgs <- ConnectMsgs
  MaxChunk = 2
  UseCalls = FALSE
  UseSubs = FALSE
  GenMode = TRUE
  StartConnected = FALSE
  Grid = 0
  TrackKA = FALSE
  NAddrs = {1}
  SubKinds = {"A"}
SPECIFICATION MCSpec
VIEW mcview
CONSTRAINT Horizon
CHECK_DEADLOCK FALSE
