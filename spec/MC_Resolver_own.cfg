CONSTANTS
  MaxOps = 7
  Mode = "own"
SPECIFICATION MSpec
INVARIANT SuppliedNeverClosed
INVARIANT CreatedClosedWhenDone
INVARIANT FlagMeansCreated
CHECK_DEADLOCK FALSE
