CONSTANTS
  MaxConn = 2
  MaxSteps = 10
  UseNames = TRUE
  GenMode = FALSE
SPECIFICATION MSpec
VIEW mview
INVARIANT NeverWedged
INVARIANT RefusedOnlyWhenBusy
INVARIANT OneLive
INVARIANT GateSound
INVARIANT StopsMatchSessions
INVARIANT PointerValid
PROPERTY Forward
PROPERTY SessionNameOK
PROPERTY BadNameOnlyIfBad
CHECK_DEADLOCK FALSE
