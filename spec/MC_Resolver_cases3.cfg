CONSTANTS
  MaxOps = 0
  Mode = "cases3"
SPECIFICATION MSpec
CHECK_DEADLOCK FALSE
