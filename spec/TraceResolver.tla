--------------------------- MODULE TraceResolver ---------------------------
(* Trace validation of the ownership machine of Resolver.tla: one row per manager operation. *)
EXTENDS Resolver, IOUtils
Traces == JsonDeserialize(IOEnv.TRACE_FILE)
NT == Len(Traces)
ASSUME \A i \in 1..NT : TLCSet(i, 0)
VARIABLES tid, l
tvars == <<z, tid, l>>
T == Traces[tid]
TInit == tid \in 1..NT /\ l = 1 /\ ZInit
Apply(x, e) == CASE e.op = "set" -> SetInstance(x) [] e.op = "lookup" -> Lookup(x) [] e.op = "listen" -> Listen(x) [] e.op = "stop" -> StopClose(x)
Match(y, e) == y.inst = e.inst /\ y.out = e.out /\ y.ncreated = e.ncreated /\ y.closedCreated = e.closedCreated /\ y.closedSupplied = e.closedSupplied
TStep == /\ l <= Len(T) /\ Match(Apply(z, T[l]), T[l]) /\ z' = Apply(z, T[l]) /\ l' = l + 1 /\ UNCHANGED tid
TSpec == TInit /\ [][TStep]_tvars
Prog == TLCSet(tid, IF TLCGet(tid) < l THEN l ELSE TLCGet(tid))
Accepted == \A i \in 1..NT : IF TLCGet(i) = Len(Traces[i]) + 1 THEN TRUE ELSE PrintT(<<"REJECT", i, TLCGet(i)>>)
=============================================================================
