CONSTANTS
  TBle = 30000
  TDisc = 20000
  MaxSteps = 5
  OpKinds = {"read", "notify", "services", "connect", "connect_auto", "disconnect", "pair"}
  Msgs <- BleMsgs
  MaxChunk = 1
  GenMode = TRUE
  UseSubs = FALSE
SPECIFICATION MSpec
VIEW mview
CONSTRAINT Horizon
CHECK_DEADLOCK FALSE
