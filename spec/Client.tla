------------------------------- MODULE Client -------------------------------
(***************************************************************************)
(* APIClient (client.py) as the owner of at most one APIConnection at a    *)
(* time: property C19 ("never wedges, refuses work unless a session is     *)
(* alive").  The life of each connection object is abstracted to its       *)
(* visible state (Connection.tla decides how it moves); what this module   *)
(* adds is the client's pointer `ptr` to the current connection, the       *)
(* connect phase / disconnect call in progress, and the gate every API     *)
(* call goes through.                                                      *)
(*                                                                         *)
(* Every action is one event-loop callback.  Connection-level events       *)
(* (phase progress, a close for any cause) are environment actions here.   *)
(***************************************************************************)
EXTENDS Naturals, Sequences, FiniteSets, TLC

VARIABLE c
cvars == <<c>>

\* h: what the application's stop callback does in its first step, i.e. (tasks start eagerly) inside the very
\* callback in which the session ends:  "none" | "start" (reconnect at once) | "api" (issue a command)
\* nz: the client is configured with a Noise key (the device then announces its name, "dev", before the handshake)
CInitHN(h, nz) ==
          c = [ hook |-> h, noise |-> nz,
               exp |-> "none",       \* the device name the client expects at the moment (APIClient.expected_name; may be set at any time)
               hn |-> <<>>,          \* per connection: the name in the HelloResponse it was given ("none": not yet)
               nexp |-> <<>>,        \* per connection: the expected name when its finish phase began (the Noise helper checks against that)
               ptr |-> 0,            \* index of the connection APIClient._connection points to, 0 = None
               st |-> <<>>,          \* visible state of every connection object created so far
               ever |-> <<>>,        \* did it reach "connected"
               phs |-> <<>>,         \* connect phases in progress [k: start | finish, on: connection, op: user call start |
                                     \* finish | connect]; more than one only while an abandoned attempt is still unwinding
               dc |-> <<>>,          \* connections a disconnect() call is still running on (one entry per call)
               nstop |-> 0,          \* how often the application's stop callback has been invoked
               gr |-> {},            \* connections on which a graceful end has been initiated (disconnect() / force, device request)
               sa |-> <<>>,          \* the arguments the stop callback was invoked with, in order
               wf |-> {},            \* connections whose transport raises on write from now on (broken pipe, reset)
               dn |-> <<>>,          \* operations that ended in this callback: <<op, class>>
               gate |-> "none" ]     \* verdict of the API gate in this callback: none | open | shut | shut_in_stop
CInitH(h) == CInitHN(h, FALSE)
CInit == CInitH("none")

Live == {"opened", "hsdone", "connected"}
PhaseOn(x, i) == \E j \in 1..Len(x.phs) : x.phs[j].on = i
DropAt(q, j) == SubSeq(q, 1, j - 1) \o SubSeq(q, j + 1, Len(q))
Begin(x) == [x EXCEPT !.dn = <<>>, !.gate = "none"]
Done(x, op, cls) == [x EXCEPT !.dn = Append(@, <<op, cls>>)]
N(x) == Len(x.st)
Rank(v) == CASE v = "init" -> 0 [] v = "opened" -> 1 [] v = "hsdone" -> 2 [] v = "connected" -> 3 [] v = "closed" -> 4

\* a connection closes (any cause).  If it had been connected its stop callback runs inside the
\* same callback and the client forgets it.
\* The application's stop callback starts running in the same callback, AFTER the client has forgotten
\* the connection: a reconnect issued from it is accepted (no attempt in progress, no session alive), a
\* command issued from it is refused with a connection error (C19).
Close(x, i) ==
  IF x.st[i] = "closed" THEN x
  ELSE LET stop == x.ever[i] /\ x.st[i] = "connected"
           \* (its argument: had a graceful end been initiated on THIS connection before it closed - C07)
           y == [x EXCEPT !.st[i] = "closed", !.ptr = IF stop THEN 0 ELSE @, !.nstop = IF stop THEN @ + 1 ELSE @,
                          !.sa = IF stop THEN Append(@, i \in x.gr) ELSE @]
       IN IF ~stop \/ x.hook = "none" THEN y
          ELSE IF x.hook = "start"
               THEN [y EXCEPT !.st = Append(@, "init"), !.ever = Append(@, FALSE), !.ptr = Len(y.st) + 1,
                              !.hn = Append(@, "none"), !.nexp = Append(@, "none"),
                              !.phs = Append(@, [k |-> "start", on |-> Len(y.st) + 1, op |-> "start"])]
               ELSE Done([y EXCEPT !.gate = "shut_in_stop"], "api", "ANY")

\* ------------------------------------------------------------ user calls
\* start_connection: accepted iff the client holds no connection
UserStart(x0) ==
  LET x == Begin(x0) IN
  IF x.ptr # 0 THEN {Done(x, "start", "APIConnectionError")}
  ELSE {[x EXCEPT !.st = Append(@, "init"), !.ever = Append(@, FALSE), !.ptr = N(x) + 1,
                  !.hn = Append(@, "none"), !.nexp = Append(@, "none"),
                  !.phs = Append(@, [k |-> "start", on |-> N(x) + 1, op |-> "start"])]}

\* connect(): both phases in one call
UserConnect(x0) ==
  LET x == Begin(x0) IN
  IF x.ptr # 0 THEN {Done(x, "connect", "APIConnectionError")}
  ELSE {[x EXCEPT !.st = Append(@, "init"), !.ever = Append(@, FALSE), !.ptr = N(x) + 1,
                  !.hn = Append(@, "none"), !.nexp = Append(@, "none"),
                  !.phs = Append(@, [k |-> "start", on |-> N(x) + 1, op |-> "connect"])]}

\* finish_connection on the connection a successful start left opened
UserFinish(x0) ==
  LET x == Begin(x0) IN
  IF x.ptr = 0 \/ PhaseOn(x, x.ptr) \/ x.st[x.ptr] # "opened" THEN {}      \* outside the domain
  ELSE {[x EXCEPT !.phs = Append(@, [k |-> "finish", on |-> x.ptr, op |-> "finish"]), !.nexp[x.ptr] = x.exp]}

\* the pointer after disconnect() has returned for connection i: forgotten, unless a connect
\* phase on that connection is still unwinding (it forgets the connection when it ends)
AfterDisconnect(x, i) ==
  IF x.ptr # i THEN {x}
  ELSE {[x EXCEPT !.ptr = 0]} \cup (IF PhaseOn(x, i) THEN {x} ELSE {})

\* disconnect(force): force closes at once; a graceful one may have to wait (finish phase in
\* progress, DisconnectResponse outstanding) and then ends in DiscEnd
\* (a graceful disconnect() first waits for a finish phase in progress on that connection; only when it goes on -
\* DiscProceed - is the end it brings about an expected one)
FinishOn(x, i) == \E j \in 1..Len(x.phs) : x.phs[j].on = i /\ x.phs[j].k = "finish"
UserDisconnect(x0, force) ==
  LET x == [Begin(x0) EXCEPT !.gr = IF x0.ptr # 0 /\ (force \/ ~FinishOn(x0, x0.ptr)) THEN @ \cup {x0.ptr} ELSE @] IN
  IF x0.ptr = 0 THEN {Done(Begin(x0), "disconnect", "ok")}
  ELSE LET i == x.ptr
           now == {Done(y, "disconnect", "ok") : y \in AfterDisconnect(Close(x, i), i)}
       IN IF force THEN now
          ELSE now \cup {[x EXCEPT !.dc = Append(@, i)]}

\* any command / subscription / request: refused unless an authenticated session is alive
GateOpen(x) == x.ptr # 0 /\ x.st[x.ptr] = "connected"
\* Every API call writes its request in its first step.  On a transport whose write raises, the call fails with a
\* connection error and the session is torn down in the same callback (stop callback included): the client
\* is free again at once - it does not keep a dead session until the transport reports the loss.
UserApi(x0) ==
  LET x == Begin(x0) IN
  IF GateOpen(x) THEN
     IF x.ptr \in x.wf
     THEN LET y == Close(x, x.ptr) IN {Done([y EXCEPT !.gate = IF @ = "shut_in_stop" THEN @ ELSE "failed"], "api", "ANY")}
     ELSE {[x EXCEPT !.gate = "open"]}
  ELSE {Done([x EXCEPT !.gate = "shut"], "api", "ANY")}

\* the transport of connection i starts failing its writes (no read event yet, connection_lost not delivered)
EnvWriteFail(x0, i) == IF i \in 1..N(x0) THEN {[Begin(x0) EXCEPT !.wf = @ \cup {i}]} ELSE {Begin(x0)}

\* recv() on connection i's socket fails: the transport is closing from now on (its writes are dropped silently,
\* they no longer raise); the connection itself learns of the loss in a later callback (EnvClose)
EnvReset(x0, i) == {[Begin(x0) EXCEPT !.wf = @ \ {i}]}

\* ---------------------------------------------------------------- names
\* the application sets / clears the expected device name (at any time: the connection sees the current value)
UserExpect(x0, n) == {[Begin(x0) EXCEPT !.exp = n]}
\* the device's HelloResponse for connection i carries the name n
EnvHello(x0, i, n) == IF i \in 1..N(x0) THEN {[Begin(x0) EXCEPT !.hn[i] = n]} ELSE {Begin(x0)}
\* the name the device announced differs from the expected one: in its Noise hello ("dev", checked against the
\* expectation the helper was built with) or in its HelloResponse (checked against the current expectation;
\* an empty name is a device that announces none)
NameBad(x, i) == \/ (x.noise /\ x.nexp[i] \notin {"none", "dev"})
                 \/ (x.exp # "none" /\ x.hn[i] \notin {"none", "", x.exp})

\* ---------------------------------------------------- connection-level
\* the phase in progress ends
PhaseEnd(x0, j, res) ==
  LET x == Begin(x0) IN
  IF j \notin 1..Len(x.phs) THEN {}
  ELSE LET p == x.phs[j] i == p.on IN
    IF res = "ok" THEN
         IF x.st[i] = "closed" THEN {}                                     \* a close is never undone (C05)
         ELSE IF p.k = "start"
              THEN IF p.op = "connect"
                   THEN {[x EXCEPT !.st[i] = "opened", !.phs[j] = [k |-> "finish", on |-> i, op |-> "connect"], !.nexp[i] = x.exp]}
                   ELSE {Done([x EXCEPT !.st[i] = "opened", !.phs = DropAt(@, j)], "start", "ok")}
              \* a session only with a device whose name is the expected one, whenever one is configured (C06)
              ELSE IF NameBad(x, i) THEN {}
              ELSE {Done([x EXCEPT !.st[i] = "connected", !.ever[i] = TRUE, !.phs = DropAt(@, j)], p.op, "ok")}
    ELSE IF res = "badname" THEN
         \* the bad-name error is raised for a name that really differs from the one expected - never otherwise
         IF p.k # "finish" \/ ~NameBad(x, i) THEN {}
         ELSE {Done([x EXCEPT !.st[i] = "closed", !.ptr = IF @ = i THEN 0 ELSE @, !.phs = DropAt(@, j)], p.op, "BadNameAPIError")}
    ELSE {Done([x EXCEPT !.st[i] = "closed", !.ptr = IF @ = i THEN 0 ELSE @, !.phs = DropAt(@, j)], p.op, "ANY-")}

\* visible progress inside the finish phase
Progress(x0) ==
  LET x == Begin(x0) IN
  {[x EXCEPT !.st[x.phs[j].on] = "hsdone"] : j \in {m \in 1..Len(x.phs) : x.phs[m].k = "finish" /\ x.st[x.phs[m].on] = "opened"}}

\* some connection closes (peer, fault, keep-alive, a disconnect that took effect)
\* - only possible once the connection has a transport, i.e. from the finish phase on: between the
\* two phases nothing can happen to a connection but the user's own disconnect
HasIO(x, i) == x.st[i] \in {"hsdone", "connected"} \/ \E j \in 1..Len(x.phs) : x.phs[j].k = "finish" /\ x.phs[j].on = i
EnvClose(x0, i) == IF i \in 1..N(x0) /\ x0.st[i] # "closed" /\ HasIO(x0, i) THEN {Close(Begin(x0), i)} ELSE {}

\* the device asks connection i to disconnect: an expected end - if the connection listens already (its internal
\* handlers are registered from the moment the handshake is complete); otherwise the request is ignored
EnvDiscReq(x0, i) ==
  IF i \in 1..N(x0) /\ x0.st[i] # "closed" /\ HasIO(x0, i)
  THEN {Begin(x0), Close([Begin(x0) EXCEPT !.gr = @ \cup {i}], i)} ELSE {Begin(x0)}

\* a pending disconnect() goes on after its wait for the finish phase (which ended, or 5 s passed)
DiscProceed(x0, i) == IF i \in 1..N(x0) /\ (\E j \in 1..Len(x0.dc) : x0.dc[j] = i) /\ i \notin x0.gr /\ x0.st[i] # "closed"
                      THEN {[Begin(x0) EXCEPT !.gr = @ \cup {i}]} ELSE {}

\* a pending disconnect() call returns: its connection is closed by then
InDc(x, i) == \E j \in 1..Len(x.dc) : x.dc[j] = i
RemoveOne(q, i) == LET j == CHOOSE j \in 1..Len(q) : q[j] = i /\ \A m \in 1..j - 1 : q[m] # i
                   IN SubSeq(q, 1, j - 1) \o SubSeq(q, j + 1, Len(q))
DiscEnd(x0, i) ==
  LET x == Begin(x0) IN
  IF ~InDc(x, i) THEN {}
  ELSE {Done(y, "disconnect", "ok") : y \in AfterDisconnect([Close(x, i) EXCEPT !.dc = RemoveOne(@, i)], i)}

\* a library callback that changes nothing this module talks about
Noop(x0) == {Begin(x0)}

\* ============================================================ PROPERTIES
\* C19: the client is never left holding a connection that is dead and that nothing is
\* working on - that is the state in which every later start_connection is refused
Busy(x, i) == PhaseOn(x, i) \/ InDc(x, i)
NeverWedged == c.ptr # 0 => (c.st[c.ptr] \in Live \/ Busy(c, c.ptr))
\* start_connection is refused only while an attempt is in progress or a session is alive
RefusedOnlyWhenBusy ==
  \A j \in 1..Len(c.dn) : (c.dn[j] = <<"start", "APIConnectionError">>) =>
       (c.ptr # 0 /\ (c.st[c.ptr] \in Live \/ Busy(c, c.ptr)))
\* at most one connection is alive and it is the one the client points to (or one being torn down)
OneLive == \A i \in 1..N(c) : c.st[i] \in Live => (c.ptr = i \/ Busy(c, i))
\* C07 at the client level: one stop callback per session that was established and has ended
StopsMatchSessions == c.nstop = Cardinality({i \in 1..N(c) : c.ever[i] /\ c.st[i] = "closed"})
GateSound == (c.gate = "open") => (c.ptr # 0 /\ c.st[c.ptr] = "connected")
PointerValid == c.ptr \in 0..N(c)
Forward == [][\A i \in 1..N(c) : Rank(c'.st[i]) >= Rank(c.st[i])]_c
=============================================================================
