------------------------------ MODULE Commands ------------------------------
(***************************************************************************)
(* C15: the declarative table of the entity-command API and what the       *)
(* request written to the device must carry.  Written from the API         *)
(* documentation and the has_<field> convention of api.proto, not from the *)
(* implementation.  TLC enumerates command x subset of optional arguments  *)
(* x value class x negotiated version and evaluates Expected; the harness  *)
(* issues the very call on a client connected with that version and        *)
(* compares the FULL field map of the frame written.                       *)
(***************************************************************************)
EXTENDS Naturals, Sequences, FiniteSets, TLC, Json

\* how an argument travels:
\*   req     always present, field of the same name (unless `f` says otherwise)
\*   has     optional: field + presence flag has_<field>, exactly when supplied
\*   has_ms  optional duration in seconds: field in whole milliseconds + presence flag
\*   has_rgb optional colour tuple: red, green, blue + has_rgb
\*   plain   optional without a presence flag in the protocol
\*   truthy  boolean switch (default False): field set when true
R(a) == [arg |-> a, how |-> "req"]
H(a) == [arg |-> a, how |-> "has"]
Cmds == <<
 [name |-> "cover_command", msg |-> "CoverCommandRequest", args |-> <<R("key"), H("position"), H("tilt"), [arg |-> "stop", how |-> "truthy"]>>],
 [name |-> "fan_command", msg |-> "FanCommandRequest", args |-> <<R("key"), H("state"), H("speed"), H("speed_level"), H("oscillating"), H("direction"), H("preset_mode")>>],
 [name |-> "light_command", msg |-> "LightCommandRequest", args |-> <<R("key"), H("state"), H("brightness"), H("color_mode"), H("color_brightness"),
       [arg |-> "rgb", how |-> "has_rgb"], H("white"), H("color_temperature"), H("cold_white"), H("warm_white"),
       [arg |-> "transition_length", how |-> "has_ms"], [arg |-> "flash_length", how |-> "has_ms"], H("effect")>>],
 [name |-> "switch_command", msg |-> "SwitchCommandRequest", args |-> <<R("key"), R("state")>>],
 [name |-> "climate_command", msg |-> "ClimateCommandRequest", args |-> <<R("key"), H("mode"), H("target_temperature"), H("target_temperature_low"),
       H("target_temperature_high"), H("fan_mode"), H("swing_mode"), H("custom_fan_mode"), H("preset"), H("custom_preset"), H("target_humidity")>>],
 [name |-> "number_command", msg |-> "NumberCommandRequest", args |-> <<R("key"), R("state")>>],
 [name |-> "date_command", msg |-> "DateCommandRequest", args |-> <<R("key"), R("year"), R("month"), R("day")>>],
 [name |-> "time_command", msg |-> "TimeCommandRequest", args |-> <<R("key"), R("hour"), R("minute"), R("second")>>],
 [name |-> "datetime_command", msg |-> "DateTimeCommandRequest", args |-> <<R("key"), R("epoch_seconds")>>],
 [name |-> "select_command", msg |-> "SelectCommandRequest", args |-> <<R("key"), R("state")>>],
 [name |-> "siren_command", msg |-> "SirenCommandRequest", args |-> <<R("key"), H("state"), H("tone"), H("volume"), H("duration")>>],
 [name |-> "button_command", msg |-> "ButtonCommandRequest", args |-> <<R("key")>>],
 [name |-> "lock_command", msg |-> "LockCommandRequest", args |-> <<R("key"), R("command"), H("code")>>],
 [name |-> "valve_command", msg |-> "ValveCommandRequest", args |-> <<R("key"), H("position"), [arg |-> "stop", how |-> "truthy"]>>],
 [name |-> "media_player_command", msg |-> "MediaPlayerCommandRequest", args |-> <<R("key"), H("command"), H("volume"), H("media_url"), H("announcement")>>],
 [name |-> "text_command", msg |-> "TextCommandRequest", args |-> <<R("key"), R("state")>>],
 [name |-> "update_command", msg |-> "UpdateCommandRequest", args |-> <<R("key"), R("command")>>],
 [name |-> "alarm_control_panel_command", msg |-> "AlarmControlPanelCommandRequest", args |-> <<R("key"), R("command"), [arg |-> "code", how |-> "plain"]>>]
>>

Optional(c) == {c.args[i].arg : i \in {j \in 1..Len(c.args) : c.args[j].how # "req"}}
AtLeast(v, maj, min) == v[1] > maj \/ (v[1] = maj /\ v[2] >= min)

\* the fields the request must carry: set of [f, v]  where v names how the value is obtained
\*   "arg:<a>"  the argument's value      "ms:<a>"  round(1000 * value)      "rgb<i>:<a>"  component i
\*   "true"     TRUE                      "away:<a>" (value = AWAY preset)   "legacy:<n>" legacy cover command n
F(f, v) == [f |-> f, v |-> v]
ArgFields(a, supplied, cls) ==
  CASE a.how = "req"     -> {F(a.arg, "arg")}
    [] a.arg \notin supplied -> {}
    [] a.how = "has"     -> {F(a.arg, "arg"), F("has_" \o a.arg, "true")}
    [] a.how = "has_ms"  -> {F(a.arg, "ms"), F("has_" \o a.arg, "true")}
    [] a.how = "has_rgb" -> {F("red", "rgb0"), F("green", "rgb1"), F("blue", "rgb2"), F("has_rgb", "true")}
    [] a.how = "plain"   -> {F(a.arg, "arg")}
    [] a.how = "truthy"  -> IF cls = "falsy" THEN {} ELSE {F(a.arg, "true")}
Generic(c, supplied, cls) == UNION {ArgFields(c.args[i], supplied, cls) : i \in 1..Len(c.args)}

\* documented legacy encodings for devices that negotiated an older API version
Expected(c, supplied, cls, ver) ==
  IF c.name = "cover_command" /\ ~AtLeast(ver, 1, 1) THEN
     \* open / close / stop only: stop wins; position 1.0 = open, 0.0 = close; anything else carries no command
     {F("key", "arg")} \cup
     (IF "stop" \in supplied /\ cls # "falsy" THEN {F("legacy_command", "legacy:2"), F("has_legacy_command", "true")}
      ELSE IF "position" \in supplied /\ cls = "extreme" THEN {F("legacy_command", "legacy:0"), F("has_legacy_command", "true")}
      ELSE IF "position" \in supplied /\ cls = "falsy" THEN {F("legacy_command", "legacy:1"), F("has_legacy_command", "true")}
      ELSE {})
  ELSE IF c.name = "climate_command" /\ ~AtLeast(ver, 1, 5) /\ "preset" \in supplied THEN
     (Generic(c, supplied \ {"preset"}, cls)) \cup {F("has_legacy_away", "true"), F("legacy_away", "away")}
  ELSE Generic(c, supplied, cls)

Versions == {<<1, 0>>, <<1, 1>>, <<1, 2>>, <<1, 3>>, <<1, 4>>, <<1, 5>>, <<1, 10>>, <<2, 0>>}
VersionsFor(c) == IF c.name \in {"cover_command", "climate_command"} THEN Versions ELSE {<<1, 0>>, <<1, 10>>}
Classes == {"falsy", "typical", "extreme"}

\* execute_service: one argument of each type; integers travel as int_ from 1.3 on, as legacy_int before
SvcTypes == {"bool", "int", "float", "string", "bool_array", "int_array", "float_array", "string_array"}
SvcField(t, ver) == CASE t = "int" -> IF AtLeast(ver, 1, 3) THEN "int_" ELSE "legacy_int"
                      [] t \in {"bool", "float", "string"} -> t \o "_"
                      [] OTHER -> t

VARIABLE done
Init == done = FALSE
EmitAll ==
  /\ \A i \in 1..Len(Cmds) : \A s \in SUBSET Optional(Cmds[i]) : \A cls \in Classes : \A v \in VersionsFor(Cmds[i]) :
        PrintT(<<"CMD", ToJson([cmd |-> Cmds[i].name, msg |-> Cmds[i].msg, supplied |-> s, cls |-> cls, ver |-> v,
                                fields |-> Expected(Cmds[i], s, cls, v)])>>)
  /\ \A t \in SvcTypes : \A cls \in Classes : \A v \in Versions :
        PrintT(<<"SVC", ToJson([type |-> t, cls |-> cls, ver |-> v, field |-> SvcField(t, v)])>>)
Next == ~done /\ EmitAll /\ done' = TRUE
Spec == Init /\ [][Next]_done
\* sanity of the table itself
TableOK == \A i \in 1..Len(Cmds) : Cmds[i].args[1] = R("key") /\ \A j, k \in 1..Len(Cmds[i].args) : j # k => Cmds[i].args[j].arg # Cmds[i].args[k].arg
ASSUME TableOK
=============================================================================
