CONSTANTS
  FrameAlphabet <- BigAlphabet
  MaxFrames = 2
  MaxBytes = 270
  Kinds <- MCKinds
SPECIFICATION Spec
VIEW view
INVARIANT DeliveredExactlyComplete
INVARIANT TailRetained
INVARIANT BadPreamble
CHECK_DEADLOCK FALSE
