CONSTANTS
  MaxConn = 3
  MaxSteps = 14
  UseNames = FALSE
  GenMode = FALSE
SPECIFICATION MSpec
VIEW mview
INVARIANT NeverWedged
INVARIANT RefusedOnlyWhenBusy
INVARIANT OneLive
INVARIANT GateSound
INVARIANT StopsMatchSessions
INVARIANT PointerValid
PROPERTY Forward
CHECK_DEADLOCK FALSE
