CONSTANTS
  MaxSteps = 8
  MaxTime = 30000
  GenMode = TRUE
SPECIFICATION MSpec
VIEW mview
CHECK_DEADLOCK FALSE
