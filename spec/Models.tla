------------------------------- MODULE Models -------------------------------
(***************************************************************************)
(* C14: the client's models mirror the wire schema and conversion is total *)
(* and value-preserving.  ProtoSchema (generated from the TEXT of          *)
(* api.proto) is the reference.  (a) table statements over a snapshot of   *)
(* the model enums / classes, evaluated by TLC; (b) the case analysis of   *)
(* conversion per field kind: TLC enumerates message x field x value class *)
(* with the result the statement demands, the harness materialises each    *)
(* case on the real from_pb / to_dict / from_dict.                         *)
(***************************************************************************)
EXTENDS ProtoSchema, Naturals, Sequences, FiniteSets, TLC, Json, IOUtils

Obs == JsonDeserialize(IOEnv.TRACE_FILE)
\* Obs.enums   : <<[model, proto, members : <<[n, v]>>]>>   every member, aliases included
\* Obs.classes : <<[model, proto, fields : <<name>>]>>
Range(q) == {q[i] : i \in DOMAIN q}
PEnum(name) == CHOOSE e \in Range(ProtoEnums) : e.name = name
HasEnum(name) == \E e \in Range(ProtoEnums) : e.name = name
PMsg(name) == CHOOSE m \in Range(ProtoMsgFields) : m.msg = name
HasMsg(name) == \E m \in Range(ProtoMsgFields) : m.msg = name
Report(tag, S) == IF S = {} THEN TRUE ELSE PrintT(<<"MISMATCH", tag, S>>)

\* exactly the wire enum's numeric values
EnumValues == Report("enum_values", UNION {
   LET pv == {x.v : x \in Range(PEnum(e.proto).values)} mv == {x.v : x \in Range(e.members)} IN
   {<<e.model, "missing", v>> : v \in pv \ mv} \cup {<<e.model, "extra", v>> : v \in mv \ pv} : e \in {x \in Range(Obs.enums) : HasEnum(x.proto)}})
\* with matching names (the wire name, with or without the enum's prefix)
EnumNames == Report("enum_names", UNION {
   {<<e.model, m.n, m.v>> : m \in {x \in Range(e.members) :
        ~\E p \in Range(PEnum(e.proto).values) : p.v = x.v /\ x.n \in {p.n, p.s}}} : e \in {x \in Range(Obs.enums) : HasEnum(x.proto)}})
\* and no aliases
EnumAliases == Report("enum_aliases", UNION {
   {<<e.model, pr[1].n, pr[2].n, pr[1].v>> : pr \in {q \in Range(e.members) \X Range(e.members) : q[1].v = q[2].v /\ q[1].n # q[2].n}} : e \in Range(Obs.enums)})
EnumKnown == Report("enum_unknown_wire_enum", {e.model : e \in {x \in Range(Obs.enums) : ~HasEnum(x.proto)}})
\* every model class built from a wire message has exactly that message's field names
FieldsMirror == Report("class_fields", UNION {
   LET pf == {f.name : f \in Range(PMsg(c.proto).fields)} mf == Range(c.fields) IN
   {<<c.model, "missing", f>> : f \in pf \ mf} \cup {<<c.model, "extra", f>> : f \in mf \ pf} : c \in {x \in Range(Obs.classes) : HasMsg(x.proto)}})
ClassKnown == Report("class_unknown_wire_message", {c.model : c \in {x \in Range(Obs.classes) : ~HasMsg(x.proto)}})

\* ------------------------------------------------ conversion case analysis
Ints == {"int32", "uint32", "sint32", "fixed32", "sfixed32", "int64", "uint64", "fixed64"}
IsEnumType(t) == HasEnum(t)
Kind(f) == IF f.label = "repeated" THEN (IF IsEnumType(f.type) THEN "enum_list" ELSE IF HasMsg(f.type) THEN "msg_list" ELSE "scalar_list")
           ELSE IF IsEnumType(f.type) THEN "enum" ELSE IF HasMsg(f.type) THEN "msg"
           ELSE IF f.type = "float" THEN "float" ELSE IF f.type = "bool" THEN "bool"
           ELSE IF f.type \in {"string", "bytes"} THEN "text" ELSE "int"
\* value classes per kind, and what the model must show
Cases(k) == CASE k = "int"   -> {[v |-> "zero", e |-> "same"], [v |-> "one", e |-> "same"], [v |-> "max", e |-> "same"]}
              [] k = "bool"  -> {[v |-> "false", e |-> "same"], [v |-> "true", e |-> "same"]}
              [] k = "text"  -> {[v |-> "empty", e |-> "same"], [v |-> "ascii", e |-> "same"], [v |-> "unicode", e |-> "same"]}
              [] k = "float" -> {[v |-> x, e |-> "float"] : x \in {"zero", "negzero", "tenth", "third", "big_int", "tie", "pow10", "subnormal", "huge", "inf", "neginf", "nan"}}
              [] k = "enum"  -> {[v |-> "known_each", e |-> "enum_member"], [v |-> "unknown", e |-> "enum_none"]}
              [] k = "enum_list" -> {[v |-> "empty", e |-> "same"], [v |-> "all_known", e |-> "enum_list_known"], [v |-> "mixed_unknown", e |-> "enum_list_known"]}
              [] k = "scalar_list" -> {[v |-> "empty", e |-> "same"], [v |-> "two", e |-> "same"]}
              [] OTHER -> {[v |-> "default", e |-> "total"], [v |-> "set", e |-> "total"]}

VARIABLE done
Init == done = FALSE
EmitAll == \A c \in Range(Obs.classes) : HasMsg(c.proto) =>
             \A f \in Range(PMsg(c.proto).fields) : \A cs \in Cases(Kind(f)) :
                PrintT(<<"CONV", ToJson([model |-> c.model, msg |-> c.proto, field |-> f.name, type |-> f.type, kind |-> Kind(f), v |-> cs.v, e |-> cs.e])>>)
Next == ~done /\ EmitAll /\ done' = TRUE
Spec == Init /\ [][Next]_done
Tables == EnumValues /\ EnumNames /\ EnumAliases /\ EnumKnown /\ FieldsMirror /\ ClassKnown
ASSUME Tables
=============================================================================
