---------------------------- MODULE TraceSession ----------------------------
(***************************************************************************)
(* Trace validation for Session.tla: one row per event-loop callback of a  *)
(* run of the real APIClient on an established session.  Row: c cause, a   *)
(* arguments, t virtual ms, up, w frames written (names), cb user          *)
(* callbacks fired <<subscriber, kind, datum, parts>>, dn operations ended *)
(* <<id, class, result>>, nh distinct callbacks registered with the        *)
(* connection, and at idle points (q) the deadlines of all armed timers.   *)
(***************************************************************************)
EXTENDS Session, Json, IOUtils

Traces == JsonDeserialize(IOEnv.TRACE_FILE)
NT == Len(Traces)
ASSUME \A i \in 1..NT : TLCSet(i, 0)

VARIABLES tid, l
tvars == <<s, tid, l>>
T == Traces[tid]
TInit == tid \in 1..NT /\ l = 1 /\ SInit

Advance(x, t) == IF t > x.now THEN [x EXCEPT !.now = t] ELSE x
CanAdvance(x, t) == t >= x.now /\ (t > x.now => \A u \in x.tm : u.at >= t)

API == {"APIConnectionError", "ResolveAPIError", "SocketAPIError", "SocketClosedAPIError", "TimeoutAPIError", "HandshakeAPIError",
        "InvalidEncryptionKeyAPIError", "BadNameAPIError", "InvalidAuthAPIError", "ProtocolAPIError", "RequiresEncryptionAPIError",
        "PingFailedAPIError", "ReadFailedAPIError", "ConnectionNotEstablishedAPIError", "APIConnectionCancelledError",
        "UnhandledAPIConnectionError", "BluetoothGATTAPIError", "BluetoothConnectionDroppedError"}
ClassMatch(m, e) == m = e \/ (m = "ANY" /\ e \in API)
DoneMatch(md, ed) ==
  /\ Len(md) = Len(ed)
  /\ \A i \in 1..Len(md) : \E j \in 1..Len(ed) : md[i][1] = ed[j][1] /\ ClassMatch(md[i][2], ed[j][2]) /\ md[i][3] = ed[j][3]
Count(q, v) == Cardinality({i \in 1..Len(q) : q[i] = v})
TimersMatch(x, etm) == /\ Cardinality(x.tm) = Len(etm)
                       /\ \A u \in x.tm : Cardinality({v \in x.tm : v.at = u.at}) = Count(etm, u.at)
\* callbacks of one message go to its subscribers in no particular order; the harness sorts them per message
Match(x, e) ==
  /\ x.up = e.up
  /\ x.w = e.w
  /\ x.cb = e.cb
  /\ DoneMatch(x.dn, e.dn)
  /\ (x.up => Handlers(x) = e.nh)
  /\ (e.q => TimersMatch(x, e.tm))
Diff(x, e) ==
  (IF x.up # e.up THEN {"up"} ELSE {}) \cup (IF x.w # e.w THEN {"w"} ELSE {}) \cup (IF x.cb # e.cb THEN {"cb"} ELSE {}) \cup
  (IF ~DoneMatch(x.dn, e.dn) THEN {"dn"} ELSE {}) \cup (IF x.up /\ Handlers(x) # e.nh THEN {"nh"} ELSE {}) \cup
  (IF e.q /\ ~TimersMatch(x, e.tm) THEN {"tm"} ELSE {})

Internal(x) ==
  UNION {IF OpStepEnabled(x, i) THEN {OpStep(x, i)} ELSE {} : i \in OpIds} \cup
  UNION {IF Due(x, OpTimer(i)) THEN {OpTimerFire(x, i)} ELSE {} : i \in OpIds} \cup
  (IF x.up THEN {VaStarted(x, j) : j \in VaDone(x)} ELSE {}) \cup {Begin(x)}

Apply(x, e) ==
  CASE e.c = "UserOp"       -> {UserOp(x, e.a.i, e.a.k, e.a.a, e.a.h)}
    [] e.c = "CancelOp"     -> {CancelOp(x, e.a.i)}
    [] e.c = "ConnUnsub"    -> {ConnUnsub(x, e.a.i)}
    [] e.c = "NotifyStop"   -> {NotifyStop(x, e.a.i, 0, 0)}
    [] e.c = "NotifyRemove" -> {NotifyRemove(x, e.a.i)}
    [] e.c = "UserSub"      -> {UserSub(x, e.a.id, e.a.fam, e.a.once)}
    [] e.c = "UserUnsub"    -> {UserUnsub(x, e.a.id, e.a.fam)}
    [] e.c = "VaSubscribe"  -> {VaSubscribe(x, e.a.mode, e.a.audio)}
    [] e.c = "VaUnsub"      -> {VaUnsub(x)}
    [] e.c = "VaRelease"    -> {VaRelease(x, e.a.n, e.a.res)}
    [] e.c = "EnvChunk"     -> {EnvChunk(x, e.a.ms)}
    [] e.c = "EnvClose"     -> {EnvClose(x)}
    [] e.c = "idle"         -> IF Quiescent(x) /\ NothingDue(x) THEN {Begin(x)} ELSE {}
    [] OTHER                -> Internal(x)

\* A released start handler resuming and ending changes nothing observable: that callback is no row of the
\* trace.  Any of the woken handlers may have taken that step before the row.
Pre(x) == {[x EXCEPT !.va.q = [j \in 1..Len(@) |-> IF j \in S THEN [@[j] EXCEPT !.st = IF @ = "w_port" THEN "port" ELSE "noport"] ELSE @[j]]]
             : S \in SUBSET VaWoken(x)}
TStep ==
  /\ l <= Len(T.rows)
  /\ LET e == T.rows[l] IN
       \/ /\ CanAdvance(s, e.t)
          /\ \E x1 \in Pre(Advance(s, e.t)) : \E y \in Apply(x1, e) : Match(y, e) /\ s' = y
       \/ /\ ~(CanAdvance(s, e.t) /\ \E x1 \in Pre(Advance(s, e.t)) : \E y \in Apply(x1, e) : Match(y, e))
          /\ PrintT(<<"DIAG", tid, l, IF ~CanAdvance(s, e.t) THEN {{"skipped_timer"}}
                                      ELSE IF Apply(Advance(s, e.t), e) = {} THEN {{"not_enabled"}}
                                      ELSE {Diff(y, e) : y \in Apply(Advance(s, e.t), e)}>>)
          /\ PrintT(<<"STATE", tid, l, [i \in OpIds |-> <<s.ops[i].k, s.ops[i].st, s.ops[i].wake, s.ops[i].ph>>], s.subs, s.tm, s.va.q>>)
          /\ FALSE
  /\ l' = l + 1 /\ UNCHANGED tid
TSpec == TInit /\ [][TStep]_tvars
Prog == TLCSet(tid, IF TLCGet(tid) < l THEN l ELSE TLCGet(tid))
Accepted == \A i \in 1..NT : IF TLCGet(i) = Len(Traces[i].rows) + 1 THEN TRUE ELSE PrintT(<<"REJECT", i, TLCGet(i)>>)
=============================================================================
