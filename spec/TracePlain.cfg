SPECIFICATION Spec
CONSTRAINT Prog
POSTCONDITION Accepted
CHECK_DEADLOCK FALSE
