CONSTANTS
  M = 0
  Names = {}
  Devs = {}
  CutMode = "all"
SPECIFICATION TSpec
CONSTRAINT Prog
INVARIANT DeliveredIsHonestPrefix
INVARIANT ReadyOnlyAfterHandshake
INVARIANT NothingBeforeReady
INVARIANT NameRule
INVARIANT FailClosed
INVARIANT NonceContinuity
POSTCONDITION Accepted
CHECK_DEADLOCK FALSE
