CONSTANTS
  TResolve = 30
  TTcp = 60
  THandshake = 30
  THello = 30
  TDiscWait = 5
  TDiscResp = 10
  TCall = 10
  Configs <- DispConfigs
  MaxEnv = 3
  MaxFaults = 0
  Msgs <- DispMsgs
  MaxChunk = 2
  UseCalls = FALSE
  UseSubs = TRUE
  GenMode = TRUE
  StartConnected = TRUE
  Grid = 0
  TrackKA = FALSE
  NAddrs = {1}
  SubKinds = {"A", "*"}
SPECIFICATION MCSpec
VIEW mcview
CONSTRAINT Horizon
CHECK_DEADLOCK FALSE
