SPECIFICATION TSpec
CONSTRAINT Prog
PROPERTY DumpOnce
POSTCONDITION Accepted
CHECK_DEADLOCK FALSE
