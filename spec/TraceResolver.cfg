SPECIFICATION TSpec
CONSTRAINT Prog
INVARIANT SuppliedNeverClosed
INVARIANT CreatedClosedWhenDone
POSTCONDITION Accepted
CHECK_DEADLOCK FALSE
