CONSTANTS
  MaxConn = 3
  MaxSteps = 14
SPECIFICATION MSpec
INVARIANT NeverWedged
INVARIANT RefusedOnlyWhenBusy
INVARIANT OneLive
INVARIANT GateSound
INVARIANT PointerValid
PROPERTY Forward
CHECK_DEADLOCK FALSE
