---------------------------- MODULE MC_Session ----------------------------
(* Bounded instance of Session.tla. *)
EXTENDS Session, Json
CONSTANTS MaxSteps, OpKinds, Msgs, MaxChunk, UseSubs,
          GenMode      \* TRUE: every distinct state is printed once with the (shortest) history that reaches it
VARIABLES k, last, hist, fin
mvars == <<s, k, last, hist, fin>>
mview == <<s, k, last, fin>>
MInit == SInit /\ k = 0 /\ last = <<"init">> /\ hist = <<>> /\ fin = FALSE
M(kk, a, h, f, d, t) == [k |-> kk, a |-> a, h |-> h, f |-> f, d |-> d, t |-> t]
BleMsgs == {M(kk, a, h, FALSE, 7, "") : kk \in {"read", "gatterr"}, a \in {1, 2}, h \in {1, 2}}
           \cup {M("conn", a, 0, f, 0, "") : a \in {1, 2}, f \in BOOLEAN}
           \cup {M(kk, a, 0, FALSE, 9, "") : kk \in {"svc", "svcdone", "pair"}, a \in {1, 2}}
           \cup {M("ndata", 1, 1, FALSE, 3, "")}
SubMsgs == {M("state", 0, 0, FALSE, 11, "SensorState"), M("log", 0, 0, FALSE, 5, "")}
           \cup {M("cam", 0, c, f, key, "") : c \in {1, 2}, f \in BOOLEAN, key \in {1, 2}}
           \cup {M("vareq", 0, 0, f, 5, "") : f \in BOOLEAN} \cup {M("vaaudio", 0, 0, f, 2, "") : f \in BOOLEAN}
           \cup {M("vafin", 0, 0, FALSE, 1, "")}
Chunks == UNION {[1..n -> Msgs] : n \in 1..MaxChunk}
Act2(y, tok, htok) == /\ ~fin /\ k < MaxSteps /\ k' = k + 1 /\ s' = y /\ last' = tok /\ UNCHANGED fin
                      /\ hist' = IF GenMode THEN Append(hist, htok) ELSE hist
Act(y, tok) == Act2(y, tok, tok)
MNext ==
  \/ \E i \in OpIds, kk \in OpKinds, a \in {1}, h \in {1} :
        /\ s.ops[i].st = "none" /\ (i = "o1" \/ s.ops["o1"].k # "none")
        /\ LET aa == IF kk = "announce" THEN 0 ELSE a hh == IF kk = "announce" THEN 0 ELSE h
           IN Act2(UserOp(s, i, kk, aa, hh), <<"op", i>>, <<"op", i, kk, aa, hh>>)
  \/ s.up /\ \E ms \in Chunks : Act(EnvChunk(s, ms), <<"chunk", ms>>)
  \/ \E i \in OpIds : OpStepEnabled(s, i) /\ Act(OpStep(s, i), <<"step", i>>)
  \/ \E i \in OpIds : Due(s, OpTimer(i)) /\ Act(OpTimerFire(s, i), <<"timer", i>>)
  \/ \E i \in OpIds : s.ops[i].st = "pending" /\ Act(CancelOp(s, i), <<"cancel", i>>)
  \/ s.up /\ Act(EnvClose(s), <<"close">>)
  \/ Quiescent(s) /\ NothingDue(s) /\ s.tm # {} /\ Act([Begin(s) EXCEPT !.now = NextDeadline(s)], <<"time">>)
  \/ \E i \in OpIds : (\E u \in s.subs : u.id = OpNum(i) /\ u.fam = "connstate") /\ s.ops[i].st = "none" /\ Act(ConnUnsub(s, i), <<"connunsub", i>>)
  \/ UseSubs /\ \E id \in {1, 2}, fam \in {"states", "logs"}, once \in BOOLEAN :
        ~(\E u \in s.subs : u.id = id) /\ (once => fam = "logs") /\ Act2(UserSub(s, id, fam, once), <<"sub", id>>, <<"sub", id, fam, once>>)
  \/ UseSubs /\ \E u \in s.subs : u.fam = "logs" /\ Act2(UserUnsub(s, u.id, u.fam), <<"unsub", u.id>>, <<"unsub", u.id, u.fam>>)
  \/ UseSubs /\ ~s.va.on /\ Len(s.va.q) = 0 /\ \E md \in {"port", "noport", "block", "gated"}, au \in BOOLEAN : Act2(VaSubscribe(s, md, au), <<"vasub">>, <<"vasub", md, au>>)
  \/ UseSubs /\ s.va.on /\ Act(VaUnsub(s), <<"vaunsub">>)
  \/ s.up /\ \E j \in VaDone(s) : Act(VaStarted(s, j), <<"vastarted">>)
  \/ \E j \in VaWoken(s) : Act(VaHandlerStep(s, j), <<"vahandler">>)
  \/ \E j \in 1..Len(s.va.q), res \in {"port", "noport"} : s.va.q[j].st = "pending" /\ Act2(VaRelease(s, s.va.q[j].n, res), <<"varelease">>, <<"varelease", s.va.q[j].n, res>>)
  \/ /\ GenMode /\ ~fin /\ Len(hist) >= 2 /\ fin' = TRUE /\ UNCHANGED <<s, k, last, hist>>
     /\ PrintT(<<"SCHED", ToJson(hist)>>)
MSpec == MInit /\ [][MNext]_mvars

\* C16 ------------------------------------------------------------------
\* messages for another address or handle never complete, fail or delay an operation
ForeignIgnored == [][(last'[1] = "chunk" /\ s.up) =>
   \A i \in OpIds : LET op == s.ops[i] ms == last'[2] IN
      (op.st = "pending" /\ op.k \in GattKinds /\ \A j \in 1..Len(ms) : ~(ms[j].a = op.a /\ (ms[j].k = "conn" \/ ms[j].h = op.h)))
         => s'.ops[i] = op]_mvars
\* a connect that timed out unsubscribes, writes a disconnect for the address, and only then reports the time-out
ConnectTimeoutOrder == [][(last'[1] = "step" /\ s.ops[last'[2]].k = "connect" /\ \E j \in 1..Len(s'.dn) : s'.dn[j][2] = "TimeoutAPIError") =>
   /\ s.ops[last'[2]].ph = "disc"                                            \* the disconnect request went out in an earlier callback
   /\ ~(\E u \in s'.subs : u.id = OpNum(last'[2]) /\ u.fam = "connstate")]_mvars
\* outcome table
OutcomeSound == \A j \in 1..Len(s.dn) : s.dn[j][2] \in {"ok", "ANY", "TimeoutAPIError", "Cancelled", "BluetoothGATTAPIError", "BluetoothConnectionDroppedError"}
\* C17 ------------------------------------------------------------------
\* one callback per subscriber per message, nothing for anyone else
OnePerMessage == [][(last'[1] = "chunk" /\ s.up) =>
   LET ms == last'[2]
       \* (a self-unsubscribing subscriber receives exactly the first message of its family in the chunk)
       FirstLog == IF \E j \in 1..Len(ms) : ms[j].k = "log" THEN CHOOSE j \in 1..Len(ms) : ms[j].k = "log" /\ \A i \in 1..j - 1 : ms[i].k # "log" ELSE 0
       expect == Cardinality({<<j, u>> \in (1..Len(ms)) \X s.subs : (ms[j].k = "state" /\ u.fam = "states") \/ (ms[j].k = "log" /\ u.fam = "logs" /\ (u.once => j = FirstLog))})
       got == Cardinality({j \in 1..Len(s'.cb) : s'.cb[j][2] \in {"SensorState", "log"}})
   IN got = expect]_mvars
\* a completed image is the concatenation of that key's chunks since its previous completion
CameraConcat == \A j \in 1..Len(s.cb) : s.cb[j][2] = "Camera" => Len(s.cb[j][4]) >= 1
Horizon == s.now <= 60000
=============================================================================
