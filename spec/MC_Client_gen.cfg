CONSTANTS
  MaxConn = 2
  MaxSteps = 9
  UseNames = FALSE
  GenMode = TRUE
SPECIFICATION MSpec
VIEW mview
CHECK_DEADLOCK FALSE
