------------------------------ MODULE Registry ------------------------------
(***************************************************************************)
(* C13: the message-id registry equals the id options of api.proto, and    *)
(* traffic respects the declared direction.                                *)
(*                                                                         *)
(* ProtoSchema (generated at check time from the TEXT of api.proto by an   *)
(* independent reader) is the reference.  The harness snapshots the        *)
(* library's tables and the compiled descriptors, and records for every    *)
(* public API call which message types it wrote and which it subscribed    *)
(* to; TLC evaluates the statements below on that observation.             *)
(***************************************************************************)
EXTENDS ProtoSchema, Naturals, Sequences, FiniteSets, TLC, Json, IOUtils

Obs == JsonDeserialize(IOEnv.TRACE_FILE)
\* Obs.table      : <<[id, name]>>        MESSAGE_TYPE_TO_PROTO, in dictionary order
\* Obs.positional : <<name>>              MESSAGE_NUMBER_TO_PROTO
\* Obs.inverse    : <<[id, name]>>        PROTO_TO_MESSAGE_TYPE
\* Obs.descriptors: <<[id, name, source]>> options of the compiled descriptors (api_pb2)
\* Obs.decoded    : <<[id, name]>>        class the real connection decoded a frame of type id as
\* Obs.calls      : <<[api, sent, subscribed]>>   per API call: type names written / subscribed to

Range(q) == {q[i] : i \in DOMAIN q}
Proto == Range(ProtoMsgs)
ProtoPairs == {<<m.id, m.name>> : m \in Proto}
N == Cardinality(Proto)
SourceOf(n) == (CHOOSE m \in Proto : m.name = n).source
KnownName(n) == \E m \in Proto : m.name = n

VARIABLE done
Init == done = FALSE
Next == done' = TRUE
Spec == Init /\ [][Next]_done

\* every statement is evaluated and every counter-example printed; the driver turns each
\* MISMATCH line into a violation (TLC would stop at the first violated invariant)
Report(tag, S) == IF S = {} THEN TRUE ELSE PrintT(<<"MISMATCH", tag, S>>)

\* ids in the .proto text are unique and contiguous from 1
ProtoIdsContiguous == Report("proto_ids", ({m.id : m \in Proto} \ (1..N)) \cup ((1..N) \ {m.id : m \in Proto}))
                      /\ Report("proto_dup", {m \in Proto : \E k \in Proto : k # m /\ k.id = m.id})
\* the table is exactly the set of id options: nothing missing, nothing extra
TableEqualsProto ==
  LET T == {<<r.id, r.name>> : r \in Range(Obs.table)} IN
  Report("table_missing", ProtoPairs \ T) /\ Report("table_extra", T \ ProtoPairs)
  /\ Report("table_dup", {i \in DOMAIN Obs.table : \E j \in DOMAIN Obs.table : j # i /\ Obs.table[j].id = Obs.table[i].id})
\* positional lookup selects the right class for every id
PositionalLookup ==
  Report("positional_len", IF Len(Obs.positional) = N THEN {} ELSE {<<Len(Obs.positional), N>>})
  /\ Report("positional", {i \in 1..N : i \in DOMAIN Obs.positional /\ <<i, Obs.positional[i]>> \notin ProtoPairs})
InverseMap ==
  LET V == {<<r.id, r.name>> : r \in Range(Obs.inverse)} IN
  Report("inverse", (ProtoPairs \ V) \cup (V \ ProtoPairs))
\* the compiled descriptors agree with the .proto text (id and source of every message)
DescriptorsAgree ==
  LET D == {<<r.id, r.name, r.source>> : r \in Range(Obs.descriptors)}
      P == {<<m.id, m.name, m.source>> : m \in Proto} IN
  Report("descriptors", (P \ D) \cup (D \ P))
\* what the running connection really decoded each id as
DecodedAs == Report("decoded", {<<r.id, r.name>> : r \in Range(Obs.decoded)} \ ProtoPairs)
             /\ Report("decoded_missing", {m.id : m \in Proto} \ {r.id : r \in Range(Obs.decoded)})
\* direction
SentOK == Report("sent_direction",
  UNION {{<<cl.api, n>> : n \in {x \in Range(cl.sent) : ~KnownName(x) \/ SourceOf(x) \notin {"SOURCE_CLIENT", "SOURCE_BOTH"}}} : cl \in Range(Obs.calls)})
SubscribedOK == Report("subscribed_direction",
  UNION {{<<cl.api, n>> : n \in {x \in Range(cl.subscribed) : ~KnownName(x) \/ SourceOf(x) \notin {"SOURCE_SERVER", "SOURCE_BOTH"}}} : cl \in Range(Obs.calls)})
=============================================================================
