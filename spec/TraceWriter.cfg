CONSTANTS
  Packets = {}
  MaxBatch = 0
  MaxWrites = 0
  Modes = {}
SPECIFICATION TSpec
CONSTRAINT Prog
POSTCONDITION Accepted
CHECK_DEADLOCK FALSE
