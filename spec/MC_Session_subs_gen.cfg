CONSTANTS
  TBle = 30000
  TDisc = 20000
  MaxSteps = 5
  OpKinds = {"announce"}
  Msgs <- SubMsgs
  MaxChunk = 1
  GenMode = TRUE
  UseSubs = TRUE
SPECIFICATION MSpec
VIEW mview
CONSTRAINT Horizon
CHECK_DEADLOCK FALSE
