CONSTANTS
  TBle = 30000
  TDisc = 20000
  MaxSteps = 6
  OpKinds = {"read", "notify", "services", "connect", "connect_auto", "disconnect", "pair"}
  Msgs <- BleMsgs
  MaxChunk = 1
  UseSubs = FALSE
SPECIFICATION MSpec
CONSTRAINT Horizon
INVARIANT NoCrossTalk
INVARIANT NothingLeft
INVARIANT OutcomeSound
PROPERTY ForeignIgnored
PROPERTY ConnectTimeoutOrder
CHECK_DEADLOCK FALSE
