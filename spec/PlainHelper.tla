---------------------------- MODULE PlainHelper ----------------------------
(***************************************************************************)
(* Plaintext frame helper: stream reassembly (C01), the preamble check     *)
(* (C04, plaintext half) and the frames it writes (C02, plaintext half).   *)
(*                                                                         *)
(* The device sends a sequence of frames `frames`; the network cuts the    *)
(* byte stream into chunks of arbitrary sizes.  `Receive(n, kind)` is one  *)
(* call of data_received with the next n stream bytes; its body is the     *)
(* loop of plain_text.py:64-93 over base.py:94-135, as a pure operator.    *)
(***************************************************************************)
EXTENDS Naturals, Sequences, Wire, TLC, Json

CONSTANTS FrameAlphabet,   \* set of records [type, plen]; type = -b marks a stray byte b
          MaxFrames, MaxBytes,
          Kinds            \* bytes-like kinds of a chunk; must not matter

VARIABLES frames,     \* what the device sends (chosen once)
          rcvd,       \* stream bytes handed to data_received so far
          buf,        \* the helper's buffer: bytes received and not yet consumed
          delivered,  \* sequence of [type, payload] handed to the connection
          err,        \* "none" | "protocol" | "encryption"
          hist        \* generation only: <<[n, kind, nd, err]>> ; hidden by VIEW

vars == <<frames, rcvd, buf, delivered, err, hist>>
view == <<frames, rcvd, buf, delivered, err>>

IsBad(f) == f.plen = 0 - 1
PayloadByte(i, j) == (i * 89 + j * 131 + 128) % 256
Payload(i, plen) == [j \in 1..plen |-> PayloadByte(i, j)]
FrameBytes(fs, i) == IF IsBad(fs[i]) THEN <<fs[i].type>>
                     ELSE PlainHeader(fs[i].type, fs[i].plen) \o Payload(i, fs[i].plen)
RECURSIVE StreamOf(_, _)
StreamOf(fs, i) == IF i > Len(fs) THEN <<>> ELSE FrameBytes(fs, i) \o StreamOf(fs, i + 1)
Stream == StreamOf(frames, 1)

\* position of the last byte of frame i in the stream
RECURSIVE EndOf(_, _)
EndOf(fs, i) == IF i = 0 THEN 0 ELSE EndOf(fs, i - 1) + Len(FrameBytes(fs, i))

\* ------------------------------------------------------------------ parser
\* one run of the while-loop of data_received on buffer b, having delivered d
RECURSIVE ParseLoop(_, _)
ParseLoop(b, d) ==
  IF Len(b) = 0 THEN [buf |-> b, delivered |-> d, err |-> "none"]
  ELSE LET pre == DecVarint(b, 1) IN
    IF ~pre.ok \/ pre.val # 0
    THEN [buf |-> b, delivered |-> d,
          err |-> IF pre.ok /\ pre.val = 1 THEN "encryption" ELSE "protocol"]
    ELSE LET ln == DecVarint(b, pre.next) IN
      IF ~ln.ok THEN [buf |-> b, delivered |-> d, err |-> "none"]
      ELSE LET ty == DecVarint(b, ln.next) IN
        IF ~ty.ok THEN [buf |-> b, delivered |-> d, err |-> "none"]
        ELSE IF Len(b) < ty.next - 1 + ln.val
             THEN [buf |-> b, delivered |-> d, err |-> "none"]
             ELSE ParseLoop(SubSeq(b, ty.next + ln.val, Len(b)),
                            Append(d, [type |-> ty.val,
                                       payload |-> SubSeq(b, ty.next, ty.next + ln.val - 1)]))

\* ----------------------------------------------------------------- actions
FrameSeqs == UNION {[1..k -> FrameAlphabet] : k \in 1..MaxFrames}

Init == /\ frames \in {fs \in FrameSeqs :
                         /\ Len(StreamOf(fs, 1)) <= MaxBytes
                         \* a stray byte only as the last element
                         /\ \A i \in 1..Len(fs) - 1 : ~IsBad(fs[i])}
        /\ rcvd = 0 /\ buf = <<>> /\ delivered = <<>> /\ err = "none" /\ hist = <<>>

Receive(n, kind) ==
  /\ err = "none"
  /\ rcvd + n <= Len(Stream)
  /\ LET r == ParseLoop(buf \o SubSeq(Stream, rcvd + 1, rcvd + n), delivered) IN
       /\ buf' = r.buf /\ delivered' = r.delivered /\ err' = r.err
       /\ hist' = Append(hist, [n |-> n, kind |-> kind, nd |-> Len(r.delivered), err |-> r.err])
  /\ rcvd' = rcvd + n
  /\ UNCHANGED frames

Next == \E n \in 1..MaxBytes, k \in Kinds : Receive(n, k)
Spec == Init /\ [][Next]_vars

\* -------------------------------------------------------------- properties
\* the abstract meaning: the frames whose last byte has arrived
NGood == IF Len(frames) > 0 /\ IsBad(frames[Len(frames)]) THEN Len(frames) - 1 ELSE Len(frames)
NComplete == LET S == {i \in 0..NGood : EndOf(frames, i) <= rcvd} IN
             CHOOSE i \in S : \A j \in S : j <= i
Expected(i) == [type |-> frames[i].type, payload |-> Payload(i, frames[i].plen)]

\* C01: exactly the complete frames, in order, once, as soon as complete
DeliveredExactlyComplete == delivered = [i \in 1..NComplete |-> Expected(i)]
\* C01: bytes of the incomplete tail are retained, nothing lost, nothing early
TailRetained == err = "none" => buf = SubSeq(Stream, EndOf(frames, NComplete) + 1, rcvd)
\* C04 (plaintext half): a stray first byte fails closed; 0x01 => requires encryption
BadPreamble ==
  /\ err # "none" => /\ NGood < Len(frames) /\ NComplete = NGood
                     /\ rcvd > EndOf(frames, NGood)
                     /\ (err = "encryption") = (frames[Len(frames)].type = 1)
  /\ (NGood < Len(frames) /\ rcvd > EndOf(frames, NGood)) => err # "none"
\* deliveries only grow
Monotone == [][Len(delivered') >= Len(delivered) /\ SubSeq(delivered', 1, Len(delivered)) = delivered]_vars

ASSUME WireSanity == VarintBoundaries /\ VarintRoundTrip({0, 1, 127, 128, 255, 300, 16383, 16384, 65535, 2097151, 2097152, 268435455})

\* ------------------------------------------------------------- generation
\* one line per examined transition: the shortest behaviour reaching it
Edge == PrintT(<<"EDGE", ToJson([f |-> frames, h |-> hist'])>>)
=============================================================================
