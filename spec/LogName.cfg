SPECIFICATION Spec
CHECK_DEADLOCK FALSE
