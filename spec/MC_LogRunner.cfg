CONSTANTS
  MaxSteps = 8
SPECIFICATION MSpec
PROPERTY DumpOnce
PROPERTY QuietAfterStop
CHECK_DEADLOCK FALSE
