---------------------------- MODULE TraceWriter ----------------------------
(***************************************************************************)
(* Trace validation of long write sequences (C02): each trace is a session *)
(* of the real client (plaintext or Noise) with many send calls; an event  *)
(* is one batch as decoded by the independent device-side decoder:         *)
(*   <<[type, plen, hdr | outer/inner/nonce]>> plus the number of transport *)
(*   writes the batch caused and whether payload bytes were identical.     *)
(* Events with sig = "pause" / "resume" are flow-control signals of the     *)
(* transport in between: they must write nothing and change nothing.       *)
(***************************************************************************)
EXTENDS Writer, IOUtils

Traces == JsonDeserialize(IOEnv.TRACE_FILE)
N == Len(Traces)
ASSUME \A i \in 1..N : TLCSet(i, 0)

VARIABLES tid, l
tvars == <<vars, tid, l>>
T == Traces[tid]

TInit == tid \in 1..N /\ l = 1 /\ mode = T.mode /\ tx = T.tx0 /\ wire = <<>> /\ hist = <<>>

TStep ==
  /\ l <= Len(T.events)
  /\ LET e == T.events[l]
         batch == [i \in 1..Len(e.pk) |-> [type |-> e.pk[i].type, plen |-> e.pk[i].plen]] IN
       IF e.sig = "reject" THEN e.writes = 0 /\ e.exact /\ RejectedBatch     \* refused as a whole (exact: it raised, nothing reached the wire)
       ELSE IF e.sig # "" THEN e.writes = 0 /\ FlowSignal      \* pause_writing / resume_writing: nothing is written
       ELSE
       /\ e.writes = 1                    \* a single transport write per batch
       /\ e.exact = TRUE                  \* payload bytes identical, nothing trailing
       /\ Write(batch)
       /\ LET enc == wire'[Len(wire')] IN
          \A i \in 1..Len(batch) :
             IF mode = "plain" THEN e.pk[i].hdr = enc[i].hdr
             ELSE /\ e.pk[i].outer = enc[i].outer /\ e.pk[i].inner = enc[i].inner
                  /\ e.pk[i].nonce = enc[i].nonce
  /\ l' = l + 1 /\ UNCHANGED tid

TSpec == TInit /\ [][TStep]_tvars
Prog == TLCSet(tid, IF TLCGet(tid) < l THEN l ELSE TLCGet(tid))
Accepted == \A i \in 1..N :
   IF TLCGet(i) = Len(Traces[i].events) + 1 THEN TRUE
   ELSE PrintT(<<"REJECT", i, TLCGet(i)>>)
=============================================================================
