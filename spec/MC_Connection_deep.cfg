CONSTANTS
  TResolve = 30
  TTcp = 60
  THandshake = 30
  THello = 30
  TDiscWait = 5
  TDiscResp = 10
  TCall = 10
  Configs <- ConnectConfigs
  MaxEnv = 8
  MaxFaults = 3
  Msgs <- ConnectMsgs
  MaxChunk = 2
  UseCalls = FALSE
  UseSubs = FALSE
  GenMode = FALSE
  StartConnected = FALSE
  Grid = 0
  TrackKA = FALSE
  NAddrs = {1, 2}
  SubKinds = {"A"}
SPECIFICATION MCSpec
VIEW mcview
CONSTRAINT Horizon
INVARIANT ConnectedFlag
INVARIANT SessionOnlyIfCompatible
INVARIANT FailedConnectClosedNoStop
INVARIANT StopAtMostOnce
INVARIANT StopOnlyIfConnected
INVARIANT StopWhenClosedAfterConnected
INVARIANT Released
INVARIANT ReleasedAtRest
INVARIANT ClassifiedErrors
PROPERTY ForwardOnly
PROPERTY ClosedFinal
PROPERTY Silent
CHECK_DEADLOCK FALSE
