--------------------------- MODULE MC_NoiseHelper ---------------------------
EXTENDS NoiseHelper
MCM == 3
MCNames == {[dev |-> "dev", exp |-> "none", hp |-> 0], [dev |-> "dev", exp |-> "dev", hp |-> 0], [dev |-> "none", exp |-> "dev", hp |-> 0],
            [dev |-> "none", exp |-> "none", hp |-> 0], [dev |-> "oth", exp |-> "dev", hp |-> 0], [dev |-> "oth", exp |-> "none", hp |-> 0],
            \* a name that is announced but empty is a name like any other (only an ABSENT name is exempt)
            [dev |-> "", exp |-> "dev", hp |-> 0], [dev |-> "", exp |-> "none", hp |-> 0],
            \* a responder that attaches a payload to its handshake message
            [dev |-> "dev", exp |-> "dev", hp |-> 7], [dev |-> "none", exp |-> "none", hp |-> 7]}
NFc == MCM + 2
MCDevs ==
  {[k |-> "none", i |-> 0]}
  \cup [k : {"marker"}, i : 1..NFc]
  \cup [k : {"lenUp", "lenDown", "body", "tag"}, i : 2..NFc]
  \cup [k : {"dup"}, i : 1..NFc]
  \cup [k : {"swap"}, i : 1..NFc - 1]
  \cup [k : {"drop"}, i : 1..NFc]
  \cup [k : {"datakey"}, i : 3..NFc]
  \cup {[k |-> "wrongkey", i |-> 0], [k |-> "hserr", i |-> 1], [k |-> "hserr", i |-> 2],
        [k |-> "proto", i |-> 0], [k |-> "empty", i |-> 0], [k |-> "plaindev", i |-> 0]}
\* deviations are exercised with a matching name configuration only
GenNames == {[dev |-> "dev", exp |-> "dev", hp |-> 0], [dev |-> "none", exp |-> "none", hp |-> 0],
             [dev |-> "oth", exp |-> "dev", hp |-> 0], [dev |-> "oth", exp |-> "none", hp |-> 0],
             [dev |-> "", exp |-> "dev", hp |-> 0], [dev |-> "", exp |-> "none", hp |-> 0],
             [dev |-> "dev", exp |-> "dev", hp |-> 7]}
DevOnlyWithGoodName == dev.k = "none" \/ (nm.dev = "dev" /\ nm.exp = "dev")
=============================================================================
