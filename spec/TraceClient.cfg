SPECIFICATION TSpec
CONSTRAINT Prog
INVARIANT NeverWedged
INVARIANT OneLive
INVARIANT PointerValid
POSTCONDITION Accepted
CHECK_DEADLOCK FALSE
