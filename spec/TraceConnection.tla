-------------------------- MODULE TraceConnection --------------------------
(***************************************************************************)
(* Trace validation for Connection.tla.  A trace is one execution of the   *)
(* real APIConnection inside the virtual-time loop; one row per event-loop *)
(* callback that was an environment/user event or changed anything         *)
(* observable:                                                             *)
(*   c   cause ("UserStart", "EnvChunk", ..., "int" for library callbacks) *)
(*   a   its arguments                                                     *)
(*   t   virtual time (ms)                                                 *)
(*   cs, ic, sock, tr, sa   projection after the callback                  *)
(*   w, d, dn   messages written / deliveries / operations that ended     *)
(*   q, tm     loop idle?  then: deadlines of all armed timers             *)
(* Every row must be explained by the corresponding action of the          *)
(* specification (for "int": by some enabled internal action); all state   *)
(* and action properties are evaluated along the way.                      *)
(***************************************************************************)
EXTENDS Connection, Json, IOUtils

Traces == JsonDeserialize(IOEnv.TRACE_FILE)
N == Len(Traces)
ASSUME \A i \in 1..N : TLCSet(i, 0)

VARIABLES tid, l
tvars == <<s, tid, l>>
T == Traces[tid]

TInit == /\ tid \in 1..N /\ l = 1
         /\ s = InitStateN([noise |-> T.cfg.noise, exp |-> T.cfg.exp, login |-> T.cfg.login, K |-> T.cfg.K, hist |-> FALSE], T.cfg.naddr)

\* virtual time moves to the row's instant; no armed timer may be skipped
Advance(x, t) == IF t > x.now THEN [x EXCEPT !.now = t] ELSE x
CanAdvance(x, t) == t >= x.now /\ (t > x.now => \A u \in x.tm : u.at >= t)

ClassMatch(model, seen) ==
  \/ model = seen
  \/ model = "ANY" /\ seen \in API
  \/ model = "ANYERR" /\ seen # "ok"
DoneMatch(md, ed) ==
  /\ Len(md) = Len(ed)
  /\ \A i \in 1..Len(md) : \E j \in 1..Len(ed) :
        md[i][1] = ed[j][1] /\ ClassMatch(md[i][2], ed[j][2]) /\ md[i][3] = ed[j][3]
Count(seq, v) == Cardinality({i \in 1..Len(seq) : seq[i] = v})
TimersMatch(x, etm) ==
  /\ Cardinality(x.tm) = Len(etm)
  /\ \A u \in x.tm : Cardinality({v \in x.tm : v.at = u.at}) = Count(etm, u.at)

Match(x, e) ==
  /\ x.cs = e.cs /\ x.ic = e.ic /\ x.sock = e.sock /\ x.tr = e.tr
  /\ (x.tr # "none" /\ ~x.cm) = e.pm            \* connection_made delivered to the helper
  /\ x.stops = e.sa
  /\ Handlers(x) = e.nh /\ Waiters(x) = e.nw      \* nothing left registered (C11)
  /\ x.w = e.w
  /\ x.d = e.d
  /\ DoneMatch(x.dn, e.dn)
  /\ (e.q => TimersMatch(x, e.tm))

Diff(x, e) ==
  (IF x.cs # e.cs THEN {"cs"} ELSE {}) \cup (IF x.ic # e.ic THEN {"ic"} ELSE {}) \cup
  (IF x.sock # e.sock THEN {"sock"} ELSE {}) \cup (IF x.tr # e.tr THEN {"tr"} ELSE {}) \cup
  (IF (x.tr # "none" /\ ~x.cm) # e.pm THEN {"pm"} ELSE {}) \cup
  (IF x.stops # e.sa THEN {"stops"} ELSE {}) \cup (IF Handlers(x) # e.nh THEN {"nh"} ELSE {}) \cup
  (IF Waiters(x) # e.nw THEN {"nw"} ELSE {}) \cup (IF x.w # e.w THEN {"w"} ELSE {}) \cup
  (IF x.d # e.d THEN {"d"} ELSE {}) \cup (IF ~DoneMatch(x.dn, e.dn) THEN {"dn"} ELSE {}) \cup
  (IF e.q /\ ~TimersMatch(x, e.tm) THEN {"tm"} ELSE {})

ModelView(y) == [cs |-> y.cs, fatal |-> y.fatal, dn |-> y.dn, w |-> y.w, d |-> y.d, tm |-> y.tm, tr |-> y.tr, sock |-> y.sock,
                 st |-> y.st, fi |-> y.fi, di |-> y.di, fh |-> y.fh, lost |-> y.lost, cm |-> y.cm, nh |-> Handlers(y), nw |-> Waiters(y),
                 hl |-> y.calls["hl"], now |-> y.now]

Internal(x) ==
  {y \in
    (IF StartStepEnabled(x) THEN {StartStep(x)} ELSE {}) \cup
    (IF FinishStepEnabled(x) THEN {FinishStep(x)} ELSE {}) \cup
    (IF DiscStepEnabled(x) THEN {DiscStep(x)} ELSE {}) \cup
    UNION {IF CallStepEnabled(x, id) THEN {CallStep(x, id)} ELSE {} : id \in UserCalls} \cup
    UNION {IF CallTimerFireEnabled(x, id) THEN {CallTimerFire(x, id)} ELSE {} : id \in CallIds} \cup
    (IF HsTimerFireEnabled(x) THEN {HsTimerFire(x)} ELSE {}) \cup
    (IF x.cm THEN {ConnMade(x)} ELSE {}) \cup
    (IF x.lost # "none" THEN {ConnLost(x)} ELSE {}) \cup
    (IF Due(x, "ping") THEN {PingFire(x)} ELSE {}) \cup
    (IF Due(x, "pong") THEN {PongFire(x)} ELSE {}) : TRUE}

Apply(x, e) ==
  \* the guards are the facts the harness checked before it performed the event
  \* (a pending resolver/connect future, a transport that is reading, ...)
  CASE e.c = "UserStart"      -> IF x.st.out # "pending" THEN {UserStart(x)} ELSE {}
    [] e.c = "EnvResolve"     -> IF x.st.pc = "resolve" /\ x.st.wake = "none" THEN {EnvResolve(x, e.a.res)} ELSE {}
    [] e.c = "EnvTcp"         -> IF x.st.pc = "tcp" /\ x.st.wake = "none" THEN {EnvTcp(x, e.a.res)} ELSE {}
    [] e.c = "UserFinish"     -> IF x.st.out = "ok" /\ x.fi.out # "pending" THEN {UserFinish(x, e.a.login)} ELSE {}
    [] e.c = "EnvHandshake"   -> IF x.cfg.noise /\ x.fh = "made" /\ ~x.cm /\ x.tr = "open"
                                 THEN {EnvHandshakeChunk(x, e.a.res, e.a.ms)} ELSE {}
    [] e.c = "EnvChunk"       -> IF CanReceive(x) THEN {EnvChunk(x, e.a.ms)} ELSE {}
    [] e.c = "EnvEof"         -> IF x.tr = "open" /\ ~x.cm THEN {EnvEof(x)} ELSE {}
    [] e.c = "EnvReset"       -> IF x.tr = "open" /\ ~x.cm THEN {EnvReset(x, e.a.f)} ELSE {}
    [] e.c = "EnvJunk"        -> IF x.tr = "open" /\ ~x.cm /\ ~x.cfg.noise THEN {EnvJunk(x, e.a.cls)} ELSE {}
    [] e.c = "UserDisconnect" -> IF x.di.out = "idle" THEN {UserDisconnect(x)} ELSE {}
    [] e.c = "UserForce"      -> {UserForce(x)}
    [] e.c = "SetWriteFail"   -> {SetWriteFail(x, e.a.b)}
    [] e.c = "UserCall"       -> {UserCall(x, e.a.id, e.a.mode, e.a.key)}
    [] e.c = "CancelCall"     -> {CancelCall(x, e.a.id)}
    [] e.c = "UserSend"       -> {UserSend(x, e.a.n)}
    [] e.c = "UserCancel"     -> {UserCancel(x, e.a.op)}
    \* pause_writing / resume_writing from the transport: the connection does no buffering of its own, keeps
    \* its timers and its view of the peer - nothing changes
    [] e.c = "EnvFlow"        -> {Begin(x)}
    \* the loop was blocked until now: nothing ran; the timers that fell due meanwhile fire late, at this instant
    [] e.c = "EnvStall"       -> {Begin(x)}
    [] e.c = "UserSub"        -> {UserSub(x, e.a.id, e.a.kind, e.a.script)}
    [] e.c = "UserUnsub"      -> {UserUnsub(x, e.a.id)}
    \* a library callback: some enabled internal action, or a relay hop that changes
    \* nothing the specification talks about (only possible if nothing observable changed)
    [] e.c = "int"            -> Internal(x) \cup {Begin(x)}
    \* the loop went idle: nothing ran; the model must have nothing left to run either
    [] e.c = "idle"           -> IF Quiescent(x) /\ NothingDue(x) THEN {Begin(x)} ELSE {}

\* The start task moving on to the next address after a failed TCP pass changes nothing observable when the
\* new 60 s timer has the old one's deadline: that resumption is then no row of the trace.
Pre(x) == IF x.st.pc = "tcp" /\ x.st.wake = "SocketAPIError" /\ x.st.pass < x.naddr /\ x.cs # "closed" /\ ~Due(x, "tcp")
          THEN {x, StartStep(x)} ELSE {x}
TStep ==
  /\ l <= Len(T.rows)
  /\ LET e == T.rows[l] IN
       /\ \/ /\ CanAdvance(s, e.t) \/ (e.c = "EnvStall" /\ e.t >= s.now)       \* (only a stall may pass a deadline)
             /\ \E x1 \in Pre(Advance(s, e.t)) : \E y \in Apply(x1, e) : Match(y, e) /\ s' = y
          \* diagnosis of an unexplained row: which projected fields differ (per candidate)
          \/ /\ ~((CanAdvance(s, e.t) \/ (e.c = "EnvStall" /\ e.t >= s.now)) /\ \E x1 \in Pre(Advance(s, e.t)) : \E y \in Apply(x1, e) : Match(y, e))
             /\ PrintT(<<"DIAG", tid, l,
                         IF ~CanAdvance(s, e.t) THEN {{"skipped_timer"}}
                         ELSE IF Apply(Advance(s, e.t), e) = {} THEN {{"not_enabled"}}
                         ELSE {Diff(y, e) : y \in Apply(Advance(s, e.t), e)},
                         \* what the specification expected instead (for the replay report)
                         IF ~CanAdvance(s, e.t) \/ Apply(Advance(s, e.t), e) = {} THEN {ModelView(s)}
                         ELSE {ModelView(y) : y \in Apply(Advance(s, e.t), e)}>>)
             /\ FALSE
  /\ l' = l + 1 /\ UNCHANGED tid

TSpec == TInit /\ [][TStep]_tvars

Prog == TLCSet(tid, IF TLCGet(tid) < l THEN l ELSE TLCGet(tid))
Accepted == \A i \in 1..N :
   IF TLCGet(i) = Len(Traces[i].rows) + 1 THEN TRUE
   ELSE PrintT(<<"REJECT", i, TLCGet(i)>>)
=============================================================================
