CONSTANTS
  TResolve = 30
  TTcp = 60
  THandshake = 30
  THello = 30
  TDiscWait = 5
  TDiscResp = 10
  TCall = 10
  Configs <- CallConfigs
  MaxEnv = 3
  MaxFaults = 1
  Msgs <- CallMsgs
  MaxChunk = 2
  UseCalls = TRUE
  UseSubs = FALSE
  GenMode = FALSE
  StartConnected = TRUE
  Grid = 0
  TrackKA = FALSE
  NAddrs = {1}
  SubKinds = {"A"}
SPECIFICATION MCSpec
VIEW mcview
CONSTRAINT Horizon
INVARIANT ConnectedFlag
INVARIANT CallResultExact
INVARIANT CallLeavesNothing
INVARIANT CallTimeoutExact
INVARIANT Released
INVARIANT ReleasedAtRest
INVARIANT ClassifiedErrors
INVARIANT StopAtMostOnce
PROPERTY ClosedFinal
PROPERTY Silent
CHECK_DEADLOCK FALSE
