------------------------------ MODULE Resolver ------------------------------
(***************************************************************************)
(* C20: address resolution order and fall-backs (a sequential decision     *)
(* procedure, written from the statement) and ownership of zeroconf        *)
(* instances (a small state machine).                                      *)
(***************************************************************************)
EXTENDS Naturals, Sequences, FiniteSets, TLC, Json

\* ------------------------------------------------------------ resolution
\* a configured address: [form, mdns, os]
\*   form : v4lit v6lit v6scoped v6badscope | bare dotLocal dotLocalDot | fqdn
\*   mdns : what an mDNS look-up of the name would answer: v4 v6 both none error
\*   os   : what the OS resolver would answer: v4 v6 mixed unknownFamily empty error
Literals == {"v4lit", "v6lit", "v6scoped", "v6badscope"}
Locals == {"bare", "dotLocal", "dotLocalDot"}
A(i, src, fam) == [host |-> i, src |-> src, fam |-> fam]
MdnsAddrs(i, h) == CASE h.mdns = "v4" -> <<A(i, "mdns", "v4")>> [] h.mdns = "v6" -> <<A(i, "mdns", "v6")>>
                     [] h.mdns = "both" -> <<A(i, "mdns", "v6"), A(i, "mdns", "v4")>>      \* IPv6 results before IPv4
                     [] OTHER -> <<>>
OsAddrs(i, h) == CASE h.os = "v4" -> <<A(i, "os", "v4")>> [] h.os = "v6" -> <<A(i, "os", "v6")>>
                   [] h.os = "mixed" -> <<A(i, "os", "v4"), A(i, "os", "v6")>>               \* the order the OS gave
                   [] OTHER -> <<>>
LitAddr(i, h) == <<A(i, "lit", IF h.form = "v4lit" THEN "v4" ELSE "v6")>>

\* acc = [addrs, lookups, err]
RECURSIVE Go(_, _, _)
Go(hosts, i, acc) ==
  IF i > Len(hosts) \/ acc.err # "none" THEN acc
  ELSE LET h == hosts[i] IN
    IF h.form \in Literals THEN Go(hosts, i + 1, [acc EXCEPT !.addrs = @ \o LitAddr(i, h)])       \* verbatim, no look-up at all
    ELSE LET viaMdns == IF h.form \in Locals THEN MdnsAddrs(i, h) ELSE <<>>
             l1 == IF h.form \in Locals THEN Append(acc.lookups, <<"mdns", i>>) ELSE acc.lookups
         IN IF viaMdns # <<>> THEN Go(hosts, i + 1, [acc EXCEPT !.addrs = @ \o viaMdns, !.lookups = l1])
            ELSE \* fall back to / go to the OS resolver
                 LET l2 == Append(l1, <<"os", i>>) IN
                 IF h.os = "error" THEN [acc EXCEPT !.lookups = l2, !.err = "ConnErr"]
                 ELSE Go(hosts, i + 1, [acc EXCEPT !.addrs = @ \o OsAddrs(i, h), !.lookups = l2])
Resolve(hosts) ==
  LET r == Go(hosts, 1, [addrs |-> <<>>, lookups |-> <<>>, err |-> "none"]) IN
  IF r.err = "none" /\ r.addrs = <<>> THEN [r EXCEPT !.err = "ConnErr"] ELSE r       \* never an empty result

\* properties of the procedure itself
LiteralsNeverLookedUp(hosts) == \A i \in 1..Len(hosts) : hosts[i].form \in Literals =>
   ~\E j \in 1..Len(Resolve(hosts).lookups) : Resolve(hosts).lookups[j][2] = i
OrderKept(hosts) == LET a == Resolve(hosts).addrs IN \A p, q \in 1..Len(a) : p < q => a[p].host <= a[q].host
NeverEmpty(hosts) == LET r == Resolve(hosts) IN r.err = "none" => Len(r.addrs) > 0

\* ------------------------------------------------------------- ownership
VARIABLE z
zvars == <<z>>
ZInit == z = [inst |-> "none",        \* none | supplied | created
              flag |-> FALSE,         \* ZeroconfManager._created
              ncreated |-> 0, closedCreated |-> 0, closedSupplied |-> 0,
              out |-> "none"]         \* result of the last operation: ok | error
Close(x) == IF x.flag /\ x.inst # "none"
            THEN [x EXCEPT !.inst = "none", !.flag = FALSE,
                           !.closedCreated = IF x.inst = "created" THEN @ + 1 ELSE @,
                           !.closedSupplied = IF x.inst = "supplied" THEN @ + 1 ELSE @]
            ELSE x
Get(x) == IF x.inst = "none" THEN [x EXCEPT !.inst = "created", !.flag = TRUE, !.ncreated = @ + 1] ELSE x
\* the application hands over its own instance
SetInstance(x) == IF x.inst = "none" THEN [x EXCEPT !.inst = "supplied", !.out = "ok"] ELSE [x EXCEPT !.out = "error"]
\* a look-up: uses the instance at hand or creates one and closes it again when done
Lookup(x) == LET had == x.inst # "none" y == Get(x) IN [(IF had THEN y ELSE Close(y)) EXCEPT !.out = "ok"]
\* the reconnect manager starts listening: the instance stays until stop()
Listen(x) == [Get(x) EXCEPT !.out = "ok"]
\* stop() / async_close()
StopClose(x) == [Close(x) EXCEPT !.out = "ok"]

SuppliedNeverClosed == z.closedSupplied = 0
CreatedClosedWhenDone == (z.inst # "created") => z.closedCreated = z.ncreated
FlagMeansCreated == z.flag <=> z.inst = "created"
=============================================================================
