----------------------------- MODULE Reconnect -----------------------------
(***************************************************************************)
(* ReconnectLogic (reconnect_logic.py), property C18.  The unit of this    *)
(* specification is the OBSERVABLE EVENT (an attempt begins, a callback    *)
(* is invoked, a listener is added / removed, stop() returns), not the     *)
(* loop callback: eager tasks make one callback perform several of them.   *)
(* The manager's own state is mirrored (rs, tries, retry timer, mDNS       *)
(* listener, stop flag) together with what the lock serialises: the one    *)
(* attempt in flight, an attempt that was cancelled but is still unwinding *)
(* (it ends as a failed attempt), a successor waiting for the lock, a      *)
(* stop() waiting for the lock.  Time is integer milliseconds.             *)
(***************************************************************************)
EXTENDS Naturals, Integers, Sequences, FiniteSets, TLC

VARIABLE r
rvars == <<r>>

NoT == 0 - 1
Backoff(n) == CASE n = 0 -> 1000 [] n = 1 -> 2000 [] n = 2 -> 3000 [] n = 3 -> 6000 [] n = 4 -> 10000 [] n = 5 -> 19000
                [] n = 6 -> 34000 [] OTHER -> 60000                \* min(round(1.8^n), 60) seconds
Min(a, b) == IF a < b THEN a ELSE b
Cooldown == 5000
AuthTries == 100

RInit == r = [ now |-> 0, started |-> FALSE, rs |-> "DISCONNECTED", tries |-> 0, timer |-> NoT,
               listen |-> FALSE, accept |-> TRUE,
               att |-> "none",          \* attempt in flight: none | starting | finishing
               unwinding |-> FALSE,     \* the attempt in flight was cancelled; it will still report its failure
               pending |-> FALSE,       \* a connect task exists that has not begun its attempt yet (trigger / lock wait)
               vb |-> FALSE,            \* the device has answered the attempt in flight with a verdict that rules the session out for good
                                        \* (invalid password, encryption required): its failure is an authentication-type one
               zc |-> FALSE,            \* a zeroconf instance created by the library exists (none was supplied)
               live |-> FALSE,          \* an established session exists
               grace |-> FALSE,         \* a graceful end of that session has been initiated (the application's disconnect(),
                                        \* a disconnect request of the device): its end will be an expected one
               stopwait |-> FALSE,      \* stop() is waiting for the lock
               lastcb |-> "none",       \* last of on_connect / on_disconnect
               ev |-> <<>> ]            \* events produced by the current step, in order

Begin(x) == [x EXCEPT !.ev = <<>>]
Emit(x, e) == [x EXCEPT !.ev = Append(@, e)]
StopListen(x) == IF x.listen THEN Emit([x EXCEPT !.listen = FALSE], <<"zc_remove">>) ELSE x
\* (no zeroconf instance was supplied by the application: the library creates one when it first needs it - C20)
StartListen(x) == IF x.listen THEN x
                  ELSE LET y == IF x.zc THEN x ELSE Emit([x EXCEPT !.zc = TRUE], <<"zc_new">>)
                       IN Emit([y EXCEPT !.listen = TRUE], <<"zc_add">>)
\* ... and closes it again when the manager is stopped
CloseOwnZc(x) == IF x.zc THEN Emit([x EXCEPT !.zc = FALSE], <<"zc_close">>) ELSE x
SetState(x, st) == [x EXCEPT !.rs = st, !.accept = st \in {"DISCONNECTED", "CONNECTING"}]

\* a connect task that got the lock: it begins an attempt, or finds nothing to do
TaskRuns(x) ==
  IF x.rs # "DISCONNECTED" \/ ~x.started THEN [x EXCEPT !.pending = FALSE]
  ELSE Emit(SetState([x EXCEPT !.pending = FALSE, !.att = "starting"], "CONNECTING"), <<"attempt">>)
LockFree(x) == x.att = "none"

\* _call_connect_once
Trigger(x) ==
  IF x.att # "none" \/ x.pending THEN
     \* a connect task is alive
     IF x.rs # "CONNECTING" THEN x                                 \* handshaking / ready / already being replaced: leave it
     ELSE [SetState(x, "DISCONNECTED") EXCEPT !.unwinding = TRUE, !.pending = TRUE]   \* cancel it, queue a successor
  ELSE IF LockFree(x) /\ ~x.stopwait THEN TaskRuns([x EXCEPT !.pending = TRUE])
  ELSE [x EXCEPT !.pending = TRUE]

ScheduleConnect(x, delay) == IF delay = 0 THEN Trigger(x) ELSE [x EXCEPT !.timer = x.now + delay]

\* stop() obtained the lock
StopFinish(x) ==
  LET y == CloseOwnZc(StopListen(SetState([x EXCEPT !.started = FALSE, !.timer = NoT, !.stopwait = FALSE, !.pending = FALSE], "DISCONNECTED")))
  IN Emit(y, <<"stop_ret">>)
\* The lock is handed over in a LATER loop callback than the one that released it (asyncio.Lock wakes
\* its first waiter through a future), so other events may come in between; waiters are served in
\* FIFO order, which this specification does not track: either waiter may be first.
TaskGo(x0) == LET x == Begin(x0) IN IF x.pending /\ LockFree(x) THEN {TaskRuns(x)} ELSE {}
StopGo(x0) == LET x == Begin(x0) IN IF x.stopwait /\ LockFree(x) THEN {StopFinish(x)} ELSE {}

\* ------------------------------------------------------------ user calls
UserStart(x0) ==
  LET x == Begin(x0) IN
  IF ~LockFree(x) THEN {}                                        \* outside the domain of the drivers
  ELSE LET y == [x EXCEPT !.started = TRUE] IN
       \* start() itself holds the lock while it triggers the connect task: the attempt begins in a later callback
       IF y.rs # "DISCONNECTED" THEN {y} ELSE {[y EXCEPT !.tries = 0, !.pending = TRUE]}

UserStop(x0) ==
  LET x == Begin(x0)
      \* not yet connected: the timer and the connect task are cancelled at once
      y == IF x.rs \in {"DISCONNECTED", "CONNECTING"}
           THEN [x EXCEPT !.timer = NoT,
                          !.unwinding = IF x.att = "starting" THEN TRUE ELSE @,
                          !.pending = FALSE]
           ELSE x
  \* a connect task that had just been handed the lock (woken, not yet run) still occupies the head of the
  \* lock's queue after it is cancelled: stop() then gets the lock in a later callback
  IN IF LockFree(y) /\ ~x.pending THEN {StopFinish(y)} ELSE {[y EXCEPT !.stopwait = TRUE]}

\* an mDNS record is delivered to the listener
Mdns(x0, match) ==
  LET x == Begin(x0) IN
  IF ~(x.accept /\ x.started /\ match /\ x.listen) THEN {x}
  ELSE {[Trigger(StopListen(x)) EXCEPT !.accept = FALSE]}

\* the device answers the attempt in flight (handshaking) with an invalid-password / encryption-required verdict
VerdictBad(x0) == LET x == Begin(x0) IN IF x.att = "finishing" THEN {[x EXCEPT !.vb = TRUE]} ELSE {x}

\* the application calls client.disconnect() on the live session, or the device asks to disconnect
Graceful(x0) == LET x == Begin(x0) IN IF x.live THEN {[x EXCEPT !.grace = TRUE]} ELSE {x}

\* --------------------------------------------------------------- internal
\* the retry timer fires
TimerFire(x0) ==
  LET x == Begin(x0) IN IF x.timer # NoT /\ x.timer <= x.now THEN {Trigger([x EXCEPT !.timer = NoT])} ELSE {}

\* TCP connected: handshaking starts, mDNS is no longer of interest
TcpUp(x0) ==
  LET x == Begin(x0) IN
  IF x.att = "starting" /\ ~x.unwinding THEN {StopListen(SetState([x EXCEPT !.att = "finishing"], "HANDSHAKING"))} ELSE {}

\* the attempt in flight fails: on_connect_error, back-off, listen for mDNS, release the lock
Fail(x0, auth) ==
  LET x == Begin(x0) IN
  \* (the class reported is the device's verdict if it gave one - whatever closed the connection afterwards - and an
  \* authentication-type failure is never reported without one; an attempt that was cancelled meanwhile may report either)
  IF x.att = "none" \/ (auth /\ ~x.vb) \/ (~auth /\ x.vb /\ ~x.unwinding) THEN {}
  ELSE LET t == IF auth THEN AuthTries ELSE x.tries + 1
           y1 == Emit(SetState([x EXCEPT !.att = "none", !.unwinding = FALSE, !.vb = FALSE], "DISCONNECTED"), <<"error_cb", auth>>)
           y2 == StartListen([y1 EXCEPT !.tries = t])
           y3 == [y2 EXCEPT !.timer = x.now + Backoff(Min(t, 10))]
       IN {y3}

\* the attempt in flight succeeds: on_connect
Succeed(x0) ==
  LET x == Begin(x0) IN
  IF x.att # "finishing" THEN {}
  ELSE {Emit(SetState([x EXCEPT !.att = "none", !.tries = 0, !.live = TRUE, !.grace = FALSE, !.vb = FALSE, !.lastcb = "connect"], "READY"), <<"connect_cb">>)}

\* the session ends: on_disconnect, then an immediate retry (unexpected) or a cool-down (expected)
SessionEnd(x0, expected) ==
  LET x == Begin(x0) IN
  \* (expected exactly when a graceful end had been initiated before the session closed, whatever closed it)
  IF ~x.live \/ ~LockFree(x) \/ expected # x.grace THEN {}
  ELSE LET y == Emit(SetState([x EXCEPT !.live = FALSE, !.grace = FALSE, !.lastcb = "disconnect"], "DISCONNECTED"), <<"disconnect_cb", expected>>)
       IN IF ~y.started THEN {y} ELSE {ScheduleConnect(y, IF expected THEN Cooldown ELSE 0)}

Noop(x0) == {Begin(x0)}

\* nothing left to do right now
AtRest(x) == ~(LockFree(x) /\ (x.pending \/ x.stopwait)) /\ (x.timer = NoT \/ x.timer > x.now)

\* ============================================================ PROPERTIES
\* at most one attempt in flight and at most one live session, never both
OneAtATime == ~(r.att # "none" /\ r.live /\ r.rs # "DISCONNECTED") /\ (r.att = "none" \/ r.rs \in {"CONNECTING", "HANDSHAKING", "DISCONNECTED"})
\* never an attempt while handshaking or connected
NoAttemptWhileUp == [][\A i \in 1..Len(r'.ev) : r'.ev[i] = <<"attempt">> =>
     /\ r'.started /\ ~r'.live
     \* the previous attempt / session had ended by then (its end is reported earlier in the same step, or before)
     /\ r.att = "none"
     /\ (~r.live \/ \E j \in 1..i - 1 : r'.ev[j][1] = "disconnect_cb")]_r
\* after stop() has returned: stopped, no timer, no listener, no task about to run
StoppedMeansQuiet == (~r.started /\ ~r.stopwait) => (r.timer = NoT /\ ~r.listen /\ ~r.pending)
\* the retry timer is always one of the sanctioned delays away from the event that armed it
TimerSanctioned == [][(r'.timer # NoT /\ r'.timer # r.timer) =>
     (r'.timer - r'.now) \in ({Cooldown} \cup {Backoff(n) : n \in 1..10})]_r
\* back-off grows with consecutive failures and is 60 s after authentication / encryption errors
BackoffByTries == [][(\E i \in 1..Len(r'.ev) : r'.ev[i][1] = "error_cb") =>
     (r'.timer = NoT \/ r'.timer - r'.now = Backoff(Min(r'.tries, 10)))]_r
CallbacksAlternate == [][\A i \in 1..Len(r'.ev) :
     /\ (r'.ev[i] = <<"connect_cb">> => r.lastcb # "connect")
     /\ (r'.ev[i][1] = "disconnect_cb" => r.lastcb = "connect")]_r
=============================================================================
