CONSTANTS
  MaxSteps = 9
  MaxTime = 30000
SPECIFICATION MSpec
INVARIANT OneAtATime
INVARIANT StoppedMeansQuiet
PROPERTY NoAttemptWhileUp
PROPERTY TimerSanctioned
PROPERTY BackoffByTries
PROPERTY CallbacksAlternate
CHECK_DEADLOCK FALSE
