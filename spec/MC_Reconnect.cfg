CONSTANTS
  MaxSteps = 9
  MaxTime = 30000
  GenMode = FALSE
SPECIFICATION MSpec
VIEW mview
INVARIANT OneAtATime
INVARIANT StoppedMeansQuiet
PROPERTY NoAttemptWhileUp
PROPERTY TimerSanctioned
PROPERTY BackoffByTries
PROPERTY CallbacksAlternate
CHECK_DEADLOCK FALSE
