----------------------------- MODULE MC_Client -----------------------------
(* Bounded instance of Client.tla: histories over MaxConn consecutive connections. *)
EXTENDS Client
CONSTANTS MaxConn, MaxSteps
VARIABLE k
mvars == <<c, k>>
MInit == (\E h \in {"none", "start", "api"} : CInitH(h)) /\ k = 0
Step(S) == /\ k < MaxSteps /\ k' = k + 1 /\ c' \in S
MNext ==
  \/ N(c) < MaxConn /\ Step(UserStart(c))
  \/ N(c) < MaxConn /\ Step(UserConnect(c))
  \/ N(c) = MaxConn /\ c.ptr # 0 /\ Step(UserStart(c))            \* a refused attempt
  \/ Step(UserFinish(c))
  \/ \E f \in BOOLEAN : Step(UserDisconnect(c, f))
  \/ Step(UserApi(c))
  \/ \E r \in {"ok", "err"}, j \in 1..Len(c.phs) : Step(PhaseEnd(c, j, r))
  \/ Step(Progress(c))
  \/ \E i \in 1..N(c) : Step(EnvClose(c, i))
  \/ \E i \in 1..N(c) : c.st[i] # "closed" /\ HasIO(c, i) /\ i \notin c.wf /\ Step(EnvWriteFail(c, i))
  \/ \E i \in c.wf : Step(EnvReset(c, i))
  \/ \E i \in 1..N(c) : Step(DiscEnd(c, i))
MSpec == MInit /\ [][MNext]_mvars
\* vacuity guards: these must be reachable (checked as violated invariants in the self-test)
NeverSecondSession == ~(N(c) >= 2 /\ c.st[2] = "connected")
=============================================================================
