----------------------------- MODULE MC_Client -----------------------------
(* Bounded instance of Client.tla: histories over MaxConn consecutive connections.         *)
(* GenMode: every distinct state of the client is printed once with the (shortest) history *)
(* of abstract events that reaches it - the schedules the real APIClient is driven along.  *)
EXTENDS Client, Json
CONSTANTS MaxConn, MaxSteps, GenMode,
          UseNames     \* TRUE: expected / announced device names are part of the instance (hooks off, to keep it small)
VARIABLES k, hist, fin
mvars == <<c, k, hist, fin>>
mview == <<c, fin>>
MInit == /\ IF UseNames THEN \E nz \in BOOLEAN : CInitHN("none", nz) ELSE \E h \in {"none", "start", "api"} : CInitH(h)
         /\ k = 0 /\ hist = <<>> /\ fin = FALSE
Step(S, tok) == /\ ~fin /\ k < MaxSteps /\ k' = k + 1 /\ c' \in S /\ UNCHANGED fin
                /\ hist' = IF GenMode THEN Append(hist, tok) ELSE hist
PhaseKind(j) == <<c.phs[j].k, c.phs[j].op>>
MNext ==
  \/ N(c) < MaxConn /\ Step(UserStart(c), <<"start">>)
  \/ N(c) < MaxConn /\ Step(UserConnect(c), <<"connect">>)
  \/ N(c) = MaxConn /\ c.ptr # 0 /\ Step(UserStart(c), <<"start">>)            \* a refused attempt
  \/ Step(UserFinish(c), <<"finish">>)
  \/ \E f \in BOOLEAN : Step(UserDisconnect(c, f), <<"disconnect", f>>)
  \/ Step(UserApi(c), <<"api">>)
  \/ \E r \in {"ok", "err"}, j \in 1..Len(c.phs) : Step(PhaseEnd(c, j, r), <<"phase", r, c.phs[j].k>>)
  \/ UseNames /\ \E j \in 1..Len(c.phs) : Step(PhaseEnd(c, j, "badname"), <<"phase", "badname", c.phs[j].k>>)
  \/ UseNames /\ \E n \in {"none", "dev", "oth"} : n # c.exp /\ Step(UserExpect(c, n), <<"expect", n>>)
  \/ UseNames /\ \E i \in 1..N(c), n \in {"dev", "oth", ""} :
        c.hn[i] = "none" /\ (\E j \in 1..Len(c.phs) : c.phs[j].on = i /\ c.phs[j].k = "finish") /\ Step(EnvHello(c, i, n), <<"hello", n>>)
  \/ Step(Progress(c), <<"progress">>)
  \/ \E i \in 1..N(c) : Step(EnvClose(c, i), <<"close", IF c.st[i] = "connected" THEN "session" ELSE "early">>)
  \/ \E i \in 1..N(c) : c.st[i] # "closed" /\ HasIO(c, i) /\ Step(EnvDiscReq(c, i), <<"close", "discreq">>)
  \/ \E i \in 1..N(c) : c.st[i] # "closed" /\ HasIO(c, i) /\ i \notin c.wf /\ Step(EnvWriteFail(c, i), <<"writefail">>)
  \/ \E i \in c.wf : Step(EnvReset(c, i), <<"reset">>)
  \/ \E i \in 1..N(c) : Step(DiscEnd(c, i), <<"discend">>)
  \/ \E i \in 1..N(c) : Step(DiscProceed(c, i), <<"i">>)
  \/ \E i \in 1..N(c) : Step(UNION {DiscEnd(y, i) : y \in DiscProceed(c, i)}, <<"i">>)
  \/ /\ GenMode /\ ~fin /\ Len(hist) >= 2 /\ fin' = TRUE /\ UNCHANGED <<c, k, hist>>
     /\ PrintT(<<"SCHED", ToJson(<<c.hook, hist>>)>>)
MSpec == MInit /\ [][MNext]_mvars
\* C06 at the client level: a session exists only with a device whose announced names fit the expectation in force
SessionNameOK == [][\A i \in 1..N(c) : (c.st[i] # "connected" /\ c'.st[i] = "connected") => ~NameBad(c, i)]_mvars
\* ... and the bad-name error is reserved for names that differ
BadNameOnlyIfBad == [][\A d \in 1..Len(c'.dn) : c'.dn[d][2] = "BadNameAPIError" => \E i \in 1..N(c) : NameBad(c, i)]_mvars
\* vacuity guards: these must be reachable (checked as violated invariants in the self-test)
NeverSecondSession == ~(N(c) >= 2 /\ c.st[2] = "connected")
=============================================================================
