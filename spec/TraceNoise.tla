----------------------------- MODULE TraceNoise -----------------------------
(***************************************************************************)
(* Trace validation for the Noise helper.  Each trace is one execution of  *)
(* the real APINoiseFrameHelper against the independent responder:         *)
(*   nm, dev : name configuration and the deviation the harness applied    *)
(*   frames  : the symbolic frames it materialised (real lengths)          *)
(*   events  : <<a, n, nd, ready, rep, closed, exact, nonces>>             *)
(* Every event must be explained by the corresponding action of            *)
(* NoiseHelper.tla, and all its invariants are evaluated in every state.   *)
(***************************************************************************)
EXTENDS NoiseHelper, IOUtils

Traces == JsonDeserialize(IOEnv.TRACE_FILE)
N == Len(Traces)
ASSUME \A i \in 1..N : TLCSet(i, 0)

VARIABLES tid, l
tvars == <<vars, tid, l>>
T == Traces[tid]

TInit ==
  /\ tid \in 1..N /\ l = 1
  /\ nm = T.nm /\ dev = T.dev /\ Frames = T.frames
  /\ so = [j \in 1..Len(Frames) |-> StartsOf(Frames, j)]
  /\ cuts = {}
  /\ rcvd = 0 /\ done = 1 /\ st = "HELLO" /\ rx = 0 /\ delivered = <<>>
  /\ ready = {"pending"} /\ rep = <<>> /\ trClosed = FALSE /\ esc = {"none"}
  /\ tx = 0 /\ wire = <<>> /\ hist = <<>>

InSet(c, S) == c \in S \/ "any" \in S
\* the logged observation e is one the specification allows in the primed state
Matches(e) ==
  /\ e[3] = Len(delivered')
  /\ e[7] = TRUE
  /\ LET strict == hist'[Len(hist')].obs.strict IN
     strict => /\ InSet(e[4], ready')
               /\ (rep' = <<>>) = (e[5] = <<>>)
               /\ (rep' # <<>> => InSet(e[5][1], rep'[1]))
               /\ e[6] = trClosed'

TStep ==
  /\ l <= Len(T.events)
  /\ LET e == T.events[l] IN
       \/ e[1] = "recv" /\ ReceiveRaw(e[2]) /\ Matches(e)
       \/ e[1] = "lost" /\ ConnLost /\ Matches(e)
       \* connection_lost(None) after the helper itself closed the transport:
       \* a second error report that changes nothing observable
       \/ e[1] = "lost" /\ esc = {"none"} /\ trClosed /\ UNCHANGED vars /\ Matches(e)
       \/ e[1] = "write" /\ WriteRaw(e[2]) /\ wire'[Len(wire')] = e[8]
  /\ l' = l + 1 /\ UNCHANGED tid

TSpec == TInit /\ [][TStep]_tvars

Prog == TLCSet(tid, IF TLCGet(tid) < l THEN l ELSE TLCGet(tid))
Accepted == \A i \in 1..N :
   IF TLCGet(i) = Len(Traces[i].events) + 1 THEN TRUE
   ELSE PrintT(<<"REJECT", i, TLCGet(i)>>)
=============================================================================
