CONSTANTS
  MaxOps = 0
  Mode = "cases2"
SPECIFICATION MSpec
CHECK_DEADLOCK FALSE
