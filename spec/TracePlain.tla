----------------------------- MODULE TracePlain -----------------------------
(***************************************************************************)
(* Trace validation for the plaintext helper (C01, plaintext half of C04). *)
(* Each trace is one recorded execution of the real APIPlaintextFrameHelper*)
(* on a stream far larger than the model-checked bounds:                   *)
(*   frames : <<[type, plen, hdr (bytes the device-side encoder produced)]>> *)
(*   events : <<[n, nd, exact, err, closed]>>  one per data_received call    *)
(*   raise  : numbers of the packets whose consumer raises (after taking it) *)
(* The abstract meaning of PlainHelper.tla (frames complete within the     *)
(* received prefix) decides every event; the header bytes are checked      *)
(* against Wire.tla, which ties the harness's encoder to the documented    *)
(* format.  Thousands of traces are validated in one TLC run.              *)
(***************************************************************************)
EXTENDS Naturals, Sequences, Wire, TLC, Json, IOUtils

Traces == JsonDeserialize(IOEnv.TRACE_FILE)
N == Len(Traces)
ASSUME \A i \in 1..N : TLCSet(i, 0)

VARIABLES tid, l, rcvd, nd, err
vars == <<tid, l, rcvd, nd, err>>

T == Traces[tid]
IsBad(f) == f.plen < 0
FLen(f) == IF IsBad(f) THEN 1 ELSE Len(f.hdr) + f.plen
RECURSIVE EndOfT(_, _)
EndOfT(fs, i) == IF i = 0 THEN 0 ELSE EndOfT(fs, i - 1) + FLen(fs[i])
NGoodT(fs) == IF Len(fs) > 0 /\ IsBad(fs[Len(fs)]) THEN Len(fs) - 1 ELSE Len(fs)
\* number of complete frames within the first r stream bytes, searching upward from k
RECURSIVE CompleteFrom(_, _, _, _)
CompleteFrom(fs, k, endk, r) ==
  IF k < NGoodT(fs) /\ endk + FLen(fs[k + 1]) <= r
  THEN CompleteFrom(fs, k + 1, endk + FLen(fs[k + 1]), r) ELSE k

HeadersOK(fs) == \A i \in 1..Len(fs) : IsBad(fs[i]) \/ fs[i].hdr = PlainHeader(fs[i].type, fs[i].plen)

Init == /\ tid \in 1..N /\ l = 1 /\ rcvd = 0 /\ nd = 0 /\ err = "none"

Step ==
  /\ l <= Len(T.events)
  /\ LET e == T.events[l]
         r == rcvd + e.n
         kAll == CompleteFrom(T.frames, nd, EndOfT(T.frames, nd), r)
         \* the consumer fails on the packets numbered in T.raise (after taking them): the call ends there; the
         \* complete frames behind are handed over by the following calls - each once, nothing lost
         Stops == {T.raise[i] : i \in 1..Len(T.raise)} \cap (nd + 1)..kAll
         k == IF Stops = {} THEN kAll ELSE CHOOSE x \in Stops : \A y \in Stops : x <= y
         bad == NGoodT(T.frames) < Len(T.frames) /\ k = NGoodT(T.frames)
                  /\ r > EndOfT(T.frames, k)
         experr == IF ~bad THEN "none"
                   ELSE IF T.frames[Len(T.frames)].type = 1 THEN "encryption" ELSE "protocol"
     IN /\ err = "none"                 \* nothing is processed after the error
        /\ (l = 1 => HeadersOK(T.frames))
        /\ e.nd = k                     \* exactly the complete frames, as soon as complete
        /\ e.exact = TRUE               \* byte-identical (type, payload), in order, once
        /\ e.err = experr
        /\ e.closed = (experr # "none")
        /\ rcvd' = r /\ nd' = k /\ err' = experr
  /\ l' = l + 1 /\ UNCHANGED tid

Next == Step
Spec == Init /\ [][Next]_vars

\* progress register: highest line explained per trace
Prog == TLCSet(tid, IF TLCGet(tid) < l THEN l ELSE TLCGet(tid))
Accepted == \A i \in 1..N :
   IF TLCGet(i) = Len(Traces[i].events) + 1 THEN TRUE
   ELSE PrintT(<<"REJECT", i, TLCGet(i)>>)
=============================================================================
