CONSTANTS
  FrameAlphabet <- GenAlphabet
  MaxFrames = 2
  MaxBytes = 9
  Kinds <- GenKinds
SPECIFICATION Spec
VIEW view
INVARIANT DeliveredExactlyComplete
INVARIANT TailRetained
INVARIANT BadPreamble
ACTION_CONSTRAINT Edge
CHECK_DEADLOCK FALSE
