----------------------------- MODULE Connection -----------------------------
(***************************************************************************)
(* APIConnection (connection.py): life-cycle, connect phases, request /    *)
(* response calls, dispatch, keep-alive, disconnect.  Properties C05-C12   *)
(* (and the connection-level halves of C03/C04/C13).                       *)
(*                                                                         *)
(* One record `s` mirrors what the properties talk about.  Sequential      *)
(* methods (_cleanup, report_fatal_error, send_messages, process_packet,   *)
(* data_received) are pure operators state -> state that compose exactly   *)
(* as the calls do.  Every action is ONE event-loop callback: an           *)
(* environment event (I/O, user call), the resumption of a task between    *)
(* two awaits, or a timer.  A task woken by a completed future resumes in  *)
(* some LATER callback; anything may run in between - that is where the    *)
(* same-iteration races of C05/C08 live.                                   *)
(*                                                                         *)
(* The specification describes the INTENDED behaviour: it satisfies the    *)
(* properties.  A trace of the code it cannot explain is a violation.      *)
(***************************************************************************)
EXTENDS Naturals, Sequences, FiniteSets, TLC

CONSTANTS
  TResolve, TTcp, THandshake, THello, TDiscWait, TDiscResp,   \* time bounds, ms
  TCall                                                         \* timeout of user calls, ms

\* ------------------------------------------------------------------ kinds
\* device -> client message kinds (m.k) :
\*  "hello" [major, name]  "connect" [invalid]  "discreq" "discresp" "pingreq"
\*  "pingresp" "timereq"  "A" [key]  "B"  "done"  "unknown"  "garbage"
\* error classes are strings; "ANY" = some class of the hierarchy (statement silent)

API == {"APIConnectionError", "ResolveAPIError", "SocketAPIError", "SocketClosedAPIError",
        "TimeoutAPIError", "HandshakeAPIError", "InvalidEncryptionKeyAPIError", "BadNameAPIError",
        "InvalidAuthAPIError", "ProtocolAPIError", "RequiresEncryptionAPIError",
        "PingFailedAPIError", "ReadFailedAPIError", "ConnectionNotEstablishedAPIError",
        "APIConnectionCancelledError", "UnhandledAPIConnectionError"}

VARIABLE s
vars == <<s>>

NoCall == [st |-> "none", types |-> {}, mode |-> "single", key |-> 0, resp |-> <<>>,
           wake |-> "none", at |-> 0]
NoMeta == [mode |-> "none", key |-> 0, from |-> 0]
CallIds == {"hl", "dr", "c1", "c2", "c3"}
UserCalls == {"c1", "c2", "c3"}

InitStateN(cfg, naddr) ==
  [ cfg |-> cfg,
    naddr |-> naddr,             \* addresses of one family the host resolves to: each gets its own TCP pass (60 s each)                 \* [noise, exp, login, K, hist]   hist: keep the arrival history (model checking of C11 only)
    now |-> 0,
    cs |-> "init", ic |-> FALSE, sock |-> "none", tr |-> "none",
    sockset |-> FALSE,           \* connection._socket assigned (the start task took the socket)
    fh |-> "none",               \* frame helper: none | made | ready | closed
    fhset |-> FALSE,             \* connection._frame_helper assigned
    cm |-> FALSE,                \* connection_made callback pending
    lost |-> "none",             \* pending connection_lost: none | class delivered later
    fatal |-> "none", expected |-> FALSE, stops |-> <<>>,
    ih |-> FALSE,                \* internal handlers registered
    pping |-> FALSE,             \* _send_pending_ping
    tm |-> {},                   \* armed timers [k, at]
    \* operations: pc, wake, outcome
    st |-> [pc |-> "idle", wake |-> "none", out |-> "idle", pass |-> 1],
    fi |-> [pc |-> "idle", wake |-> "none", out |-> "idle", login |-> FALSE],
    di |-> [pc |-> "idle", wake |-> "none", out |-> "idle"],
    calls |-> [i \in CallIds |-> NoCall],
    cout |-> [i \in UserCalls |-> "idle"],     \* outcome of user calls
    cres |-> [i \in UserCalls |-> <<>>],       \* result of user calls
    cmeta |-> [i \in UserCalls |-> NoMeta],    \* what the caller asked for (input, kept after completion)
    seen |-> <<>>,               \* history (only if cfg.hist): every valid message dispatched so far
    hseen |-> <<>>,              \* the responses the finish phase based its success on (C06)
    subs |-> {},                 \* user subscriptions [id, kind, script]
    wf |-> FALSE,                \* transport.write raises
    \* outputs of the current callback
    w |-> <<>>, d |-> <<>>, dn |-> <<>> ]

InitState(cfg) == InitStateN(cfg, 1)
Begin(x) == [x EXCEPT !.w = <<>>, !.d = <<>>, !.dn = <<>>]

CallTimer(id) == CASE id = "hl" -> "call:hl" [] id = "dr" -> "call:dr" [] id = "c1" -> "call:c1"
                   [] id = "c2" -> "call:c2" [] id = "c3" -> "call:c3"
ReqName(id) == CASE id = "c1" -> "Req:c1" [] id = "c2" -> "Req:c2" [] id = "c3" -> "Req:c3"
HsComplete(x) == x.cs \in {"hsdone", "connected"}
Timer(k, at) == [k |-> k, at |-> at]
DelTimer(x, k) == [x EXCEPT !.tm = {t \in @ : t.k # k}]
AddTimer(x, k, at) == [x EXCEPT !.tm = {t \in @ : t.k # k} \cup {Timer(k, at)}]
HasTimer(x, k) == \E t \in x.tm : t.k = k
TimerAt(x, k) == (CHOOSE t \in x.tm : t.k = k).at
Due(x, k) == HasTimer(x, k) /\ TimerAt(x, k) <= x.now

\* class a waiter / wrapped phase error carries once the connection has a fatal cause
FatalForWaiter(x) == IF x.fatal = "none" THEN "APIConnectionError"
                     ELSE IF x.fatal \in API THEN x.fatal ELSE "ReadFailedAPIError"
WrapClass(x, local) == IF local \in API THEN local
                       ELSE IF x.fatal \in API THEN x.fatal ELSE "ANY"

\* a connect phase whose task the CALLER cancelled: the cancellation is reported as a library error
\* (the connection's own fatal cause if it has one) and the connection is cleaned up
CancelClass(x) == IF x.fatal \in API THEN x.fatal ELSE "APIConnectionCancelledError"

Done(x, op, out) == [x EXCEPT !.dn = Append(@, <<op, out, <<>> >>)]
DoneR(x, op, out, res) == [x EXCEPT !.dn = Append(@, <<op, out, res>>)]

\* ------------------------------------------------------------ _cleanup
\* fails every waiter with the first fatal cause, releases helper, socket, timers,
\* interrupts the connect phases, fires the stop callback once
Cleanup(x) ==
  IF x.cs = "closed" THEN x ELSE
  LET was == x.ic
      y1 == [x EXCEPT !.cs = "closed", !.ic = FALSE,
                      !.calls = [i \in CallIds |->
                                   IF x.calls[i].st = "pending"
                                   THEN [x.calls[i] EXCEPT !.st = "woken", !.wake = FatalForWaiter(x)]
                                   ELSE x.calls[i]],
                      !.fh = IF x.fhset THEN "closed" ELSE @,
                      !.tr = IF x.fhset /\ x.tr = "open" THEN "closed" ELSE @,
                      !.fhset = FALSE,
                      !.sock = IF @ = "open" /\ x.sockset THEN "closed" ELSE @,
                      !.pping = @]
      y2 == DelTimer(DelTimer(y1, "ping"), "pong")
  IN IF was THEN [y2 EXCEPT !.stops = Append(@, x.expected)] ELSE y2

\* report_fatal_error: keeps only the first cause
Fatal(x, cls) == Cleanup([x EXCEPT !.fatal = IF @ = "none" THEN cls ELSE @])

\* ------------------------------------------------------ send_messages
\* returns the state; r.ok tells whether the caller continues
Send(x, names) ==
  IF ~HsComplete(x) THEN [x |-> x, ok |-> FALSE, cls |-> "ConnectionNotEstablishedAPIError"]
  \* a transport that is already closing (reset / error seen by asyncio, connection_lost
  \* not yet delivered) drops the data silently
  ELSE IF x.tr # "open" THEN [x |-> x, ok |-> TRUE, cls |-> "none"]
  ELSE IF x.wf THEN [x |-> Fatal(x, "SocketClosedAPIError"), ok |-> FALSE, cls |-> "SocketClosedAPIError"]
  ELSE [x |-> [x EXCEPT !.w = @ \o names], ok |-> TRUE, cls |-> "none"]

\* ------------------------------------------------------ process_packet
Accepts(c, m) ==            \* does call c take message m ?
  /\ c.st = "pending" /\ m.k \in c.types
AppendP(c, m) == CASE c.mode = "single" -> TRUE
                   [] c.mode = "list"   -> m.k # "done"
                   [] c.mode = "filter" -> m.key = c.key
                   [] c.mode = "hl"     -> TRUE
StopP(c, m)   == CASE c.mode = "single" -> TRUE
                   [] c.mode = "list"   -> m.k = "done"
                   [] c.mode = "filter" -> m.key = c.key
                   [] c.mode = "hl"     -> m.k = c.key          \* c.key holds the last response kind
CallTake(c, m) ==
  IF ~Accepts(c, m) THEN c
  ELSE LET c1 == IF AppendP(c, m) THEN [c EXCEPT !.resp = Append(@, m)] ELSE c
       IN IF StopP(c, m) THEN [c1 EXCEPT !.st = "woken", !.wake = "ok"] ELSE c1

\* user subscribers registered for kind k at this moment, in id order
SubsFor(x, k) == {u \in x.subs : u.kind = k \/ u.kind = "*"}
RECURSIVE DeliverSubs(_, _, _)
\* deliver m to the snapshot `todo` (a set); scripts may change x.subs meanwhile
DeliverSubs(x, todo, m) ==
  IF todo = {} THEN x
  ELSE LET u == CHOOSE v \in todo : \A v2 \in todo : v.id <= v2.id
           x1 == [x EXCEPT !.d = Append(@, <<u.id, m.k>>)]
           x2 == CASE u.script = "unsub_self"  -> [x1 EXCEPT !.subs = @ \ {u}]
                   [] u.script = "unsub_other" -> [x1 EXCEPT !.subs = {v \in @ : v.kind # u.kind \/ v.id = u.id}]
                   [] u.script = "sub_new"     -> [x1 EXCEPT !.subs = (@ \ {u}) \cup
                                                     {[u EXCEPT !.script = "none"], [id |-> u.id + 10, kind |-> u.kind, script |-> "none"]}]
                   [] OTHER -> x1
       IN DeliverSubs(x2, todo \ {u}, m)

Known(m) == m.k \notin {"unknown", "garbage"}

ProcessPacket(x, m) ==
  IF x.cs = "closed" THEN x                           \* a closed connection is silent (C08)
  ELSE IF m.k = "unknown" THEN x                      \* undefined type: no effect at all (C12)
  ELSE IF m.k = "garbage" THEN Fatal(x, "ProtocolAPIError")
  ELSE
   LET x0 == [DelTimer(x, "pong") EXCEPT !.pping = FALSE,
                                          !.seen = IF x.cfg.hist THEN Append(@, m) ELSE @]
       \* request/response calls registered for the kind
       x1 == [x0 EXCEPT !.calls = [i \in CallIds |-> CallTake(x0.calls[i], m)]]
       \* user subscribers (snapshot of the handler set)
       x2 == DeliverSubs(x1, SubsFor(x1, m.k), m)
       \* internal handlers
   IN IF ~x2.ih THEN x2
      ELSE CASE m.k = "discreq" -> Cleanup(Send([x2 EXCEPT !.expected = TRUE], <<"DisconnectResponse">>).x)
             [] m.k = "pingreq" -> Send(x2, <<"PingResponse">>).x
             [] m.k = "timereq" -> Send(x2, <<"GetTimeResponse">>).x
             [] OTHER -> x2

RECURSIVE DataReceived(_, _)
DataReceived(x, ms) ==
  IF ms = <<>> THEN x
  ELSE IF x.cs = "closed" THEN
       \* frames behind the closing frame are not dispatched; the Noise helper, closed by then, refuses them
       \* with a protocol error, which becomes the connection's fatal cause if it has none yet
       \* (a helper the connection had not been given yet when it closed is still open: it decrypts the frames,
       \* the closed connection ignores them)
       IF x.cfg.noise /\ x.fh = "closed" THEN [x EXCEPT !.fatal = IF @ = "none" THEN "ProtocolAPIError" ELSE @] ELSE x
  ELSE LET y == ProcessPacket(x, Head(ms)) IN
       IF Head(ms).k = "garbage" THEN y       \* the exception aborts the chunk
       ELSE DataReceived(y, Tail(ms))

\* ---------------------------------------------------------- phase failure
\* a connect phase ends with an error: clean up, report the class
FailStart(x, local) ==
  LET y0 == Cleanup(x) IN
  \* a socket that was connected for this attempt is closed even if it was never assigned
  LET y == [y0 EXCEPT !.sock = IF @ = "open" THEN "closed" ELSE @] IN
  Done([DelTimer(DelTimer(y, "res"), "tcp") EXCEPT !.st = [pc |-> "done", wake |-> "none", out |-> WrapClass(y, local), pass |-> y.st.pass]],
       "start", WrapClass(y, local))
FailFinish(x, local) ==
  LET y0 == [x EXCEPT !.calls["hl"] = NoCall] IN
  LET y1 == DelTimer(DelTimer(y0, "hs"), "call:hl") IN
  \* a transport created by this phase is closed by it even if it was never assigned
  LET y2 == Cleanup(y1) IN
  LET y == [y2 EXCEPT !.tr = IF @ = "open" THEN "closed" ELSE @, !.fh = IF @ \in {"made", "ready"} THEN "closed" ELSE @] IN
  Done([y EXCEPT !.fi = [@ EXCEPT !.pc = "done", !.wake = "none", !.out = WrapClass(y, local)]],
       "finish", WrapClass(y, local))

\* ================================================================ ACTIONS
\* ---------------------------------------------------------------- start
UserStart(x0) ==
  LET x == Begin(x0) IN
  IF x.cs # "init" THEN Done(x, "start", "ANYERR")     \* one connect attempt per object
  ELSE AddTimer([x EXCEPT !.st = [pc |-> "resolve", wake |-> "none", out |-> "pending", pass |-> 1]], "res", x.now + TResolve)

EnvResolve(x0, res) ==      \* res: "ok" | error class
  [Begin(x0) EXCEPT !.st.wake = res]
\* the OS connected: the socket exists from now on and must be closed by whoever holds it
\* res = "okbad": connected, but the peer resets at once - configuring the socket will fail
EnvTcp(x0, res) ==
  [Begin(x0) EXCEPT !.st.wake = res, !.sock = IF res \in {"ok", "okbad"} THEN "open" ELSE @]

\* the start task resumes
StartStep(x0) ==
  LET x == Begin(x0) IN
  IF x.st.wake = "Cancelled" THEN FailStart(x, CancelClass(x))
  ELSE IF x.cs = "closed" THEN FailStart(x, "interrupted")      \* a close that took effect is never undone
  ELSE IF x.st.pc = "resolve" THEN
     IF Due(x, "res") THEN FailStart(x, "ResolveAPIError")
     ELSE IF x.st.wake = "ok"
          THEN AddTimer(DelTimer([x EXCEPT !.st.pc = "tcp", !.st.wake = "none"], "res"), "tcp", x.now + TTcp)
          ELSE FailStart(x, x.st.wake)
  ELSE \* tcp
     \* a pass over the address list failed (error or 60 s): the next address gets its own pass
     IF (Due(x, "tcp") \/ x.st.wake = "SocketAPIError") /\ x.st.pass < x.naddr
     THEN AddTimer([x EXCEPT !.st.wake = "none", !.st.pass = @ + 1], "tcp", x.now + TTcp)
     ELSE IF Due(x, "tcp") THEN FailStart(x, "TimeoutAPIError")
     ELSE IF x.st.wake = "ok"
          THEN Done([DelTimer(x, "tcp") EXCEPT !.sockset = TRUE, !.cs = "opened",
                          !.st = [pc |-> "done", wake |-> "none", out |-> "ok", pass |-> x.st.pass]], "start", "ok")
          ELSE IF x.st.wake = "okbad" THEN FailStart([x EXCEPT !.sockset = TRUE], "SocketAPIError")   \* an OS error while the socket is set up
          ELSE FailStart(x, x.st.wake)
StartStepEnabled(x) ==
  /\ x.st.pc \in {"resolve", "tcp"}
  /\ \/ x.st.wake # "none" \/ x.cs = "closed"
     \/ (x.st.pc = "resolve" /\ Due(x, "res")) \/ (x.st.pc = "tcp" /\ Due(x, "tcp"))

\* --------------------------------------------------------------- finish
UserFinish(x0, login) ==
  LET x == Begin(x0) IN
  IF x.cs # "opened" THEN Done(x, "finish", "ANYERR")
  ELSE [x EXCEPT !.fi = [pc |-> "create", wake |-> "none", out |-> "pending", login |-> login],
                 !.cm = TRUE, !.tr = "open", !.fh = "made"]

\* transport calls protocol.connection_made, then resolves create_connection's waiter
ConnMade(x0) ==
  LET x == Begin(x0) IN
  \* Noise: connection_made writes the client hello; on a socket that was closed under the
  \* transport the send fails and asyncio force-closes the transport
  IF x.cfg.noise /\ x.sock # "open"
  THEN [x EXCEPT !.cm = FALSE, !.tr = "closed", !.lost = "oserr",
                 !.fi.wake = IF x.fi.pc = "create" /\ @ # "Cancelled" THEN "ok" ELSE @]
  ELSE
  [x EXCEPT !.cm = FALSE,
            !.fh = IF @ = "made" /\ ~x.cfg.noise THEN "ready" ELSE @,
            !.fi.wake = IF x.fi.pc = "create" /\ @ # "Cancelled" THEN "ok" ELSE @]

\* the part of the finish phase that runs once the helper is ready
HsDonePart(x) ==
  LET x1 == [DelTimer(x, "hs") EXCEPT !.cs = "hsdone", !.ih = TRUE]
      req == IF x.fi.login THEN <<"HelloRequest", "ConnectRequest">> ELSE <<"HelloRequest">>
      r == Send(x1, req)
  IN IF ~r.ok THEN FailFinish(r.x, r.cls)
     ELSE AddTimer([r.x EXCEPT !.fi.pc = "hello", !.fi.wake = "none",
                               !.calls["hl"] = [st |-> "pending", types |-> IF x.fi.login THEN {"hello", "connect"} ELSE {"hello"},
                                                mode |-> "hl", key |-> IF x.fi.login THEN "connect" ELSE "hello",
                                                resp |-> <<>>, wake |-> "none", at |-> x.now + THello]],
                   "call:hl", x.now + THello)

NameOK(x, n) == n = "" \/ x.cfg.exp = "none" \/ n = x.cfg.exp

\* outcome of the hello / login responses collected by the call
HelloVerdict(x, resp) ==
  IF Len(resp) = 0 \/ resp[1].k # "hello" THEN "ANY"                      \* wrong-order responses
  ELSE IF resp[1].major > 2 THEN "APIConnectionError"                    \* incompatible version
  ELSE IF ~NameOK(x, resp[1].name) THEN "BadNameAPIError"
  ELSE IF x.fi.login /\ (Len(resp) < 2 \/ resp[2].k # "connect") THEN "ANY"
  ELSE IF x.fi.login /\ resp[2].invalid THEN "InvalidAuthAPIError"
  ELSE "ok"

\* The phase resumes although the connection closed meanwhile.  If the responses it
\* was waiting for had already arrived and are themselves a reason to fail (incompatible
\* version, bad name, bad password), that specific reason is what the caller gets (C06):
\* the device answered, and its answer rules the session out whatever happened next.
FinishStepAlt(x0) ==
  LET x == Begin(x0) c == x.calls["hl"] IN
  FailFinish(x, HelloVerdict(x, c.resp))
FinishStepAltEnabled(x) ==
  /\ x.cs = "closed" /\ x.fi.pc = "hello" /\ x.calls["hl"].wake = "ok" /\ x.fi.wake # "Cancelled"
  /\ HelloVerdict(x, x.calls["hl"].resp) \notin {"ok", "ANY"}

FinishCancelled(x) == x.fi.wake = "Cancelled" \/ (x.fi.pc = "hello" /\ x.calls["hl"].wake = "Cancelled")
FinishStep(x0) ==
  LET x == Begin(x0) IN
  IF FinishCancelled(x) THEN FailFinish(x, CancelClass(x))
  ELSE IF FinishStepAltEnabled(x) THEN FinishStepAlt(x0)
  \* the hello call had already failed (timed out, or woken by the close with the cause known at that moment)
  \* when the phase resumes on a closed connection: the caller gets what the call failed with, even if a later
  \* event (Noise frames behind the closing frame) recorded another cause meanwhile - the first cause wins (C09)
  ELSE IF x.cs = "closed" /\ x.fi.pc = "hello" /\ x.calls["hl"].wake \in API THEN FailFinish(x, x.calls["hl"].wake)
  ELSE IF x.cs = "closed" THEN FailFinish(x, "interrupted")
  ELSE IF x.fi.pc = "create" THEN
     \* create_connection returned: assign helper, arm the handshake timer
     LET x1 == AddTimer([x EXCEPT !.fhset = TRUE, !.fi.wake = "none", !.fi.pc = "ready"], "hs", x.now + THandshake)
     IN IF x1.fh = "ready" THEN HsDonePart(x1) ELSE x1
  ELSE IF x.fi.pc = "ready" THEN
     IF x.fi.wake = "TimeoutAPIError" THEN FailFinish(x, "TimeoutAPIError")      \* the handshake timer had fired
     ELSE IF x.fh = "ready" THEN HsDonePart(x)
     ELSE FailFinish(x, x.fi.wake)
  ELSE \* hello
     LET c == x.calls["hl"] IN
     IF c.wake = "ok" THEN
        LET v == HelloVerdict(x, c.resp)
            y == DelTimer([x EXCEPT !.calls["hl"] = NoCall], "call:hl")
        IN IF v # "ok" THEN FailFinish(y, v)
           ELSE Done(AddTimer([y EXCEPT !.cs = "connected", !.ic = TRUE, !.pping = TRUE, !.hseen = c.resp,
                                        !.fi = [@ EXCEPT !.pc = "done", !.wake = "none", !.out = "ok"]],
                              "ping", x.now + x.cfg.K), "finish", "ok")
     ELSE FailFinish(x, c.wake)
FinishStepEnabled(x) ==
  /\ x.fi.pc \in {"create", "ready", "hello"}
  /\ \/ x.cs = "closed" \/ x.fi.wake = "Cancelled"
     \/ (x.fi.pc = "create" /\ x.fi.wake = "ok")
     \/ (x.fi.pc = "ready" /\ (x.fh = "ready" \/ x.fi.wake # "none"))
     \/ (x.fi.pc = "hello" /\ x.calls["hl"].st = "woken")

\* the 30 s handshake timer fires (its own callback): fails the readiness wait unless it is over
HsTimerFire(x0) ==
  LET x == Begin(x0) IN
  DelTimer([x EXCEPT !.fi.wake = IF x.fi.pc = "ready" /\ x.fh # "ready" /\ @ = "none" THEN "TimeoutAPIError" ELSE @], "hs")
HsTimerFireEnabled(x) == Due(x, "hs")

\* the device completes / fails the Noise handshake (frame-helper level is NoiseHelper.tla)
EnvHandshake(x0, res) ==    \* res: "ok" | error class reported by the helper
  LET x == Begin(x0) IN
  IF x.fh # "made" \/ x.cm THEN x
  ELSE IF res = "ok" THEN
       \* readiness is signalled on a wait that has already ended (timed out / cancelled by the caller):
       \* the helper's set_result raises inside data_received and asyncio drops the transport
       IF x.fi.pc = "ready" /\ x.fi.wake # "none" THEN [x EXCEPT !.fh = "ready", !.tr = "closed", !.lost = "reset"]
       ELSE [x EXCEPT !.fh = "ready"]
  ELSE \* _handle_error_and_close: ready future fails, fatal error reported, transport closed
       LET y == Fatal([x EXCEPT !.fi.wake = IF x.fi.pc = "ready" /\ @ # "Cancelled" THEN res ELSE @], res)
       IN [y EXCEPT !.tr = IF @ = "open" THEN "closed" ELSE @, !.fh = "closed"]

\* ------------------------------------------------------------ device I/O
CanReceive(x) == x.tr = "open" /\ ~x.cm /\ x.fh \in {"ready"}
EnvChunkBody(x, ms) ==
  IF ~CanReceive(x) THEN x
  ELSE LET y == DataReceived(x, ms) IN
       \* an undecodable payload escapes data_received: asyncio force-closes the transport
       IF \E i \in 1..Len(ms) : ms[i].k = "garbage" /\ (\A j \in 1..i - 1 : ms[j].k # "garbage")
          /\ y.cs = "closed" /\ y.fatal = "ProtocolAPIError" /\ x.cs # "closed"
       THEN [y EXCEPT !.tr = IF @ = "open" THEN "closed" ELSE @] ELSE y
EnvChunk(x0, ms) == EnvChunkBody(Begin(x0), ms)
\* the Noise handshake reply and application frames in ONE chunk: from the moment the handshake is complete
\* the frames that follow are the connection's, whatever the finish phase has got to
EnvHandshakeChunk(x0, res, ms) == IF ms = <<>> THEN EnvHandshake(x0, res) ELSE EnvChunkBody(EnvHandshake(x0, res), ms)

\* stray bytes instead of a frame: the helper reports and closes
EnvJunk(x0, cls) ==
  LET x == Begin(x0) IN
  IF x.tr # "open" \/ x.cm THEN x
  ELSE LET y == Fatal([x EXCEPT !.fi.wake = IF x.fi.pc = "ready" /\ x.fh = "made" /\ @ # "Cancelled" THEN cls ELSE @], cls)
       IN [y EXCEPT !.tr = "closed", !.fh = "closed"]

EnvEof(x0) ==
  LET x == Begin(x0) IN
  IF x.tr # "open" \/ x.cm THEN x
  ELSE LET y == Fatal([x EXCEPT !.fi.wake = IF x.fi.pc = "ready" /\ x.fh = "made" /\ @ # "Cancelled" THEN "SocketClosedAPIError" ELSE @],
                      "SocketClosedAPIError")
       IN [y EXCEPT !.tr = "closed"]        \* eof_received returns False: transport closes

\* recv() fails: transport force-closed now, connection_lost(exc) one iteration later.
\* f: what it failed with - "reset" (ConnectionResetError), "timedout" (ETIMEDOUT: the builtin TimeoutError, which is
\* also what asyncio's time-outs raise), "oserr" (any other OSError)
EnvReset(x0, f) ==
  LET x == Begin(x0) IN
  IF x.tr # "open" \/ x.cm THEN x ELSE [x EXCEPT !.tr = "closed", !.lost = f]

\* A loss before the device's hello under Noise: the helper turns a reset into a handshake error (the connection's
\* fatal cause); any other error stays raw, and the phase waiting for readiness reports it as a handshake error -
\* except ETIMEDOUT, which it takes for its own time-out (deviation of the code, kept: the class is one of the hierarchy)
ConnLost(x0) ==
  LET x == Begin(x0)
      early == x.cfg.noise /\ x.fh = "made"
      cls == IF early /\ x.lost = "reset" THEN "HandshakeAPIError" ELSE "RAW"
      forphase == IF x.lost = "timedout" THEN "TimeoutAPIError" ELSE "HandshakeAPIError"
      y == [x EXCEPT !.lost = "none",
                     !.fi.wake = IF x.fi.pc = "ready" /\ x.fh = "made" /\ @ # "Cancelled" THEN forphase ELSE @]
  IN Fatal(y, cls)

\* --------------------------------------------------------------- calls
CallTypes(mode) == CASE mode = "single" -> {"B"} [] mode = "list" -> {"A", "done"} [] mode = "filter" -> {"A"}
UserCall(x0, id, mode, key) ==
  LET x == Begin(x0) r == Send(x, <<ReqName(id)>>) IN
  IF ~r.ok THEN Done([r.x EXCEPT !.cout[id] = r.cls], id, r.cls)
  ELSE AddTimer([r.x EXCEPT !.calls[id] = [st |-> "pending", types |-> CallTypes(mode), mode |-> mode, key |-> key,
                                            resp |-> <<>>, wake |-> "none", at |-> x.now + TCall],
                            !.cout[id] = "pending",
                            !.cmeta[id] = [mode |-> mode, key |-> key, from |-> Len(x.seen)]],
                CallTimer(id), x.now + TCall)

Keys(resp) == [i \in 1..Len(resp) |-> IF resp[i].k = "A" THEN resp[i].key ELSE 0]

\* the call's timeout timer fires (its own loop callback): handle_timeout fails the future
\* unless it is already done; the task resumes in a later callback
CallTimerFire(x0, id) ==
  LET x == Begin(x0) IN
  IF x.calls[id].st = "pending"
  THEN DelTimer([x EXCEPT !.calls[id].st = "woken", !.calls[id].wake = "TimeoutAPIError"], CallTimer(id))
  ELSE DelTimer(x, CallTimer(id))
CallTimerFireEnabled(x, id) == Due(x, CallTimer(id))

CallStep(x0, id) ==
  LET x == Begin(x0) c == x.calls[id]
      y == DelTimer([x EXCEPT !.calls[id] = NoCall], CallTimer(id))
  IN IF c.wake = "ok" THEN DoneR([y EXCEPT !.cout[id] = "ok", !.cres[id] = Keys(c.resp)], id, "ok", Keys(c.resp))
     ELSE Done([y EXCEPT !.cout[id] = c.wake], id, c.wake)
CallStepEnabled(x, id) == x.calls[id].st = "woken"

\* the caller cancels its own call: the finally block still cleans up
CancelCall(x0, id) ==
  LET x == Begin(x0) IN
  IF x.calls[id].st = "none" THEN x
  ELSE [x EXCEPT !.calls[id] = [@ EXCEPT !.st = "woken", !.wake = "Cancelled"]]

\* fire-and-forget send of one message (commands)
UserSend(x0, n) == Send(Begin(x0), <<n>>).x

\* the caller cancels the task of one of its own pending operations; the task sees it when it resumes
UserCancel(x0, op) ==
  LET x == Begin(x0) IN
  CASE op = "start" /\ x.st.pc \in {"resolve", "tcp"} -> [x EXCEPT !.st.wake = "Cancelled"]
    [] op = "finish" /\ x.fi.pc \in {"create", "ready", "hello"} ->
         [x EXCEPT !.fi.wake = "Cancelled",
                   !.calls["hl"] = IF x.fi.pc = "hello" /\ @.st \in {"pending", "woken"} THEN [@ EXCEPT !.st = "woken", !.wake = "Cancelled"] ELSE @]
    [] op = "disconnect" /\ x.di.pc \in {"waitfin", "resp"} ->
         [x EXCEPT !.di.wake = "Cancelled",
                   !.calls["dr"] = IF x.di.pc = "resp" /\ @.st \in {"pending", "woken"} THEN [@ EXCEPT !.st = "woken", !.wake = "Cancelled"] ELSE @]
    [] OTHER -> x

\* ----------------------------------------------------------- subscribe
UserSub(x0, id, kind, script) == [Begin(x0) EXCEPT !.subs = @ \cup {[id |-> id, kind |-> kind, script |-> script]}]
UserUnsub(x0, id) == [Begin(x0) EXCEPT !.subs = {u \in @ : u.id # id}]

\* ----------------------------------------------------------- keep-alive
PingFire(x0) ==
  LET x == Begin(x0) IN
  IF x.pping THEN
     LET r == Send(x, <<"PingRequest">>) IN
     IF ~r.ok THEN r.x      \* the write error closed the connection; the exception ends the callback
     ELSE LET y == IF HasTimer(r.x, "pong") THEN r.x ELSE AddTimer(r.x, "pong", x.now + (x.cfg.K * 9) \div 2)
          IN AddTimer([y EXCEPT !.pping = TRUE], "ping", x.now + x.cfg.K)
  ELSE AddTimer([x EXCEPT !.pping = TRUE], "ping", x.now + x.cfg.K)
PongFire(x0) == Fatal(DelTimer(Begin(x0), "pong"), "PingFailedAPIError")

\* ----------------------------------------------------------- disconnect
DiscContinue(x) ==     \* after the optional wait for the finish phase
  LET x1 == [x EXCEPT !.expected = TRUE] IN
  IF HsComplete(x1) THEN
     LET r == Send(x1, <<"DisconnectRequest">>) IN
     IF ~r.ok THEN Done([Cleanup(r.x) EXCEPT !.di = [pc |-> "done", wake |-> "none", out |-> "ok"]], "disconnect", "ok")
     ELSE AddTimer([r.x EXCEPT !.di.pc = "resp", !.di.wake = "none",
                               !.calls["dr"] = [st |-> "pending", types |-> {"discresp"}, mode |-> "single", key |-> 0,
                                                resp |-> <<>>, wake |-> "none", at |-> x.now + TDiscResp]],
                   "call:dr", x.now + TDiscResp)
  ELSE Done([Cleanup(x1) EXCEPT !.di = [pc |-> "done", wake |-> "none", out |-> "ok"]], "disconnect", "ok")

FinishInProgress(x) == x.fi.pc \in {"create", "ready", "hello"}
UserDisconnect(x0) ==
  LET x == Begin(x0) IN
  IF FinishInProgress(x) /\ x.cs # "closed"
  THEN AddTimer([x EXCEPT !.di = [pc |-> "waitfin", wake |-> "none", out |-> "pending"]], "dwait", x.now + TDiscWait)
  ELSE DiscContinue([x EXCEPT !.di.out = "pending"])

DiscStep(x0) ==
  LET x == Begin(x0) IN
  IF x.di.wake = "Cancelled" THEN
     \* the caller cancelled disconnect(): it just ends; nothing is cleaned up, what it had done so far stays
     Done([DelTimer(DelTimer([x EXCEPT !.calls["dr"] = NoCall], "call:dr"), "dwait") EXCEPT !.di = [pc |-> "done", wake |-> "none", out |-> "Cancelled"]],
          "disconnect", "Cancelled")
  ELSE IF x.di.pc = "waitfin" THEN
     IF ~FinishInProgress(x) \/ x.cs = "closed" THEN DiscContinue(DelTimer(x, "dwait"))
     ELSE \* 5 s passed: give up waiting, remember why
          DiscContinue([DelTimer(x, "dwait") EXCEPT !.fatal = IF @ = "none" THEN "TimeoutAPIError" ELSE @])
  ELSE \* resp: whatever happened (response, timeout, connection error) the connection is cleaned up
     LET y == DelTimer([x EXCEPT !.calls["dr"] = NoCall], "call:dr") IN
     Done([Cleanup(y) EXCEPT !.di = [pc |-> "done", wake |-> "none", out |-> "ok"]], "disconnect", "ok")
DiscStepEnabled(x) ==
  \/ (x.di.pc \in {"waitfin", "resp"} /\ x.di.wake = "Cancelled")
  \/ (x.di.pc = "waitfin" /\ (~FinishInProgress(x) \/ x.cs = "closed" \/ Due(x, "dwait")))
  \/ (x.di.pc = "resp" /\ x.calls["dr"].st = "woken")

UserForce(x0) ==
  LET x == [Begin(x0) EXCEPT !.expected = TRUE] IN
  IF HsComplete(x) THEN Cleanup(Send(x, <<"DisconnectRequest">>).x) ELSE Cleanup(x)

SetWriteFail(x0, b) == [Begin(x0) EXCEPT !.wf = b]

\* ------------------------------------------------------------------ time
NextDeadline(x) == IF x.tm = {} THEN 0 ELSE (CHOOSE t \in x.tm : \A u \in x.tm : t.at <= u.at).at
NothingDue(x) == \A t \in x.tm : t.at > x.now


\* ------------------------------------------------- projection helpers
\* number of entries in connection._message_handlers (summed over types) and in
\* connection._read_exception_futures
Live(c) == c.st \in {"pending", "woken"}
Handlers(x) ==
  (IF x.ih THEN 3 ELSE 0) + Cardinality(x.subs)
  + LET F(i) == IF Live(x.calls[i]) THEN Cardinality(x.calls[i].types) ELSE 0
    IN F("hl") + F("dr") + F("c1") + F("c2") + F("c3")
Waiters(x) == IF x.cs = "closed" THEN 0 ELSE Cardinality({i \in CallIds : Live(x.calls[i])})

\* ------------------------------------------- a freshly connected session
\* the happy path composed from the very same operators, everything at time 0
HelloMsgs(cfg) == IF cfg.login THEN <<[k |-> "hello", major |-> 1, name |-> "dev"], [k |-> "connect", invalid |-> FALSE]>>
                  ELSE <<[k |-> "hello", major |-> 1, name |-> "dev"]>>
InitConnected(cfg) ==
  LET a == StartStep(EnvTcp(StartStep(EnvResolve(UserStart(InitState(cfg)), "ok")), "ok"))
      b == FinishStep(ConnMade(UserFinish(a, cfg.login)))
      c == IF cfg.noise THEN FinishStep(EnvHandshake(b, "ok")) ELSE b
  IN Begin(FinishStep(EnvChunk(c, HelloMsgs(cfg))))

\* ============================================================ PROPERTIES
Rank(c) == CASE c = "init" -> 0 [] c = "opened" -> 1 [] c = "hsdone" -> 2 [] c = "connected" -> 3 [] c = "closed" -> 4
\* C05
ForwardOnly == [][Rank(s'.cs) >= Rank(s.cs)]_s
ClosedFinal == [][s.cs = "closed" => s'.cs = "closed"]_s
ConnectedFlag == s.ic = (s.cs = "connected")
\* C06
SessionOnlyIfCompatible ==
  s.fi.out = "ok" =>
     /\ s.cs \in {"connected", "closed"}
     /\ Len(s.hseen) >= 1 /\ s.hseen[1].k = "hello" /\ s.hseen[1].major <= 2
     /\ (s.cfg.exp = "none" \/ s.hseen[1].name \in {"", s.cfg.exp})     \* "" = device that announces no name (LegacyNoName)
     /\ (s.fi.login => Len(s.hseen) >= 2 /\ s.hseen[2].k = "connect" /\ ~s.hseen[2].invalid)
FailedConnectClosedNoStop ==
  (s.fi.out \notin {"idle", "pending", "ok"} /\ s.fi.pc = "done") => (s.cs = "closed" /\ s.stops = <<>>)
\* C07
StopAtMostOnce == Len(s.stops) <= 1
StopOnlyIfConnected == (Len(s.stops) = 1) => s.fi.out = "ok"
StopWhenClosedAfterConnected == (s.cs = "closed" /\ s.fi.out = "ok") => Len(s.stops) = 1
\* C08
Released ==
  s.cs = "closed" => /\ (s.sock = "open" => s.st.pc = "tcp")   \* not yet handed over: closed by the start step
                     /\ ~HasTimer(s, "ping") /\ ~HasTimer(s, "pong")
                     /\ \A i \in CallIds : s.calls[i].st # "pending"
Silent == [][s.cs = "closed" => (s'.w = <<>> /\ s'.d = <<>>)]_s
\* once everything has run, nothing is left
Quiescent(x) == /\ ~StartStepEnabled(x) /\ ~FinishStepEnabled(x) /\ ~DiscStepEnabled(x)
                /\ \A i \in UserCalls : ~CallStepEnabled(x, i)
                /\ \A i \in CallIds : ~CallTimerFireEnabled(x, i)
                /\ ~HsTimerFireEnabled(x)
                /\ ~x.cm /\ (x.lost = "none" \/ x.cs = "closed")   \* connection_lost on a closed connection is a no-op
ReleasedAtRest ==
  (s.cs = "closed" /\ Quiescent(s)) =>
     /\ s.tr # "open" /\ s.tm = {}
     /\ s.st.out # "pending" /\ s.fi.out # "pending" /\ s.di.out # "pending"
     /\ \A i \in UserCalls : s.cout[i] # "pending"

\* C11 (needs cfg.hist): a call's result is a function of the arrivals after its request
Arr(x, id) == SubSeq(x.seen, x.cmeta[id].from + 1, Len(x.seen))
MRel(meta, m) == m.k \in CallTypes(meta.mode)
MApp(meta, m) == CASE meta.mode = "single" -> TRUE [] meta.mode = "list" -> m.k # "done" [] meta.mode = "filter" -> m.key = meta.key
MStop(meta, m) == CASE meta.mode = "single" -> TRUE [] meta.mode = "list" -> m.k = "done" [] meta.mode = "filter" -> m.key = meta.key
StopIdx(meta, arr) == {i \in 1..Len(arr) : MRel(meta, arr[i]) /\ MStop(meta, arr[i])}
FirstStop(meta, arr) == IF StopIdx(meta, arr) = {} THEN 0 ELSE CHOOSE i \in StopIdx(meta, arr) : \A j \in StopIdx(meta, arr) : i <= j
RelApp(meta, m) == MRel(meta, m) /\ MApp(meta, m)
Expected(meta, arr) ==
  LET n == FirstStop(meta, arr)
      idx == {i \in 1..n : RelApp(meta, arr[i])}
      \* the i-th accepted arrival
      RECURSIVE Pick(_, _)
      Pick(S, acc) == IF S = {} THEN acc ELSE LET i == CHOOSE v \in S : \A w \in S : v <= w IN Pick(S \ {i}, Append(acc, arr[i]))
  IN Keys(Pick(idx, <<>>))
CallResultExact ==
  \A id \in UserCalls :
    /\ s.cout[id] = "ok" => /\ FirstStop(s.cmeta[id], Arr(s, id)) > 0
                            /\ s.cres[id] = Expected(s.cmeta[id], Arr(s, id))
    \* a call whose stop response has been dispatched is never left waiting
    /\ (s.cout[id] = "pending" /\ s.calls[id].st = "pending") => FirstStop(s.cmeta[id], Arr(s, id)) = 0
CallLeavesNothing ==
  \A id \in UserCalls :
    s.cout[id] \notin {"idle", "pending"} => (s.calls[id] = NoCall /\ ~HasTimer(s, CallTimer(id)))
CallTimeoutExact ==
  \A id \in UserCalls :
    /\ (s.cout[id] = "pending" /\ s.calls[id].st = "pending") => s.now <= s.calls[id].at
    /\ HasTimer(s, CallTimer(id)) => s.calls[id].st \in {"pending", "woken"}
\* C09
ClassifiedErrors ==
  \A o \in {s.st.out, s.fi.out, s.di.out} \cup {s.cout[i] : i \in UserCalls} :
     o \in {"idle", "pending", "ok", "ANY", "ANYERR", "Cancelled"} \cup API
=============================================================================
