CONSTANTS
  M <- MCM
  Names <- GenNames
  Devs <- MCDevs
  CutMode = "interesting"
SPECIFICATION SpecNoWrite
VIEW view
INVARIANT DeliveredIsHonestPrefix
INVARIANT FailClosed
ACTION_CONSTRAINT Edge
CHECK_DEADLOCK FALSE
