CONSTANTS
  TResolve = 30
  TTcp = 60
  THandshake = 30
  THello = 30
  TDiscWait = 5
  TDiscResp = 10
  TCall = 10
  Configs <- KAConfigs
  MaxEnv = 3
  MaxFaults = 0
  Msgs <- KAMsgs
  MaxChunk = 1
  UseCalls = FALSE
  UseSubs = FALSE
  GenMode = TRUE
  StartConnected = TRUE
  Grid = 5
  TrackKA = TRUE
  NAddrs = {1}
  SubKinds = {"A"}
SPECIFICATION MCSpec
VIEW mcview
CONSTRAINT KAHorizon
CHECK_DEADLOCK FALSE
