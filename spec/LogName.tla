------------------------------ MODULE LogName ------------------------------
(***************************************************************************)
(* util.build_log_name / host_is_name_part / address_is_local: the name a  *)
(* connection is logged under, and the classification of configured        *)
(* addresses that the resolver (C20) and the reconnect manager (C18) rely  *)
(* on.  A self-contained function with a case analysis: transcribed here   *)
(* from its documentation, TLC enumerates name x configured addresses x    *)
(* connected address and evaluates Expected; the harness calls the real    *)
(* function on the rendered strings.  Addresses are label sequences so     *)
(* that no string arithmetic is needed in TLA+.                            *)
(*   rules: a bare name ("dev") or, when no name is known yet, a .local    *)
(*   name gives the device name (its first label); the connected address,  *)
(*   else the first configured address that did not give the name, is the  *)
(*   preferred address; "<name> @ <address>" unless the address already    *)
(*   starts with the name.                                                 *)
(***************************************************************************)
EXTENDS Naturals, Sequences, FiniteSets, TLC, Json

A(ls, dot, colon) == [labels |-> ls, dot |-> dot, colon |-> colon]
Universe == <<
  A(<<"dev">>, FALSE, FALSE),                    \* bare name
  A(<<"dev", "local">>, FALSE, FALSE),           \* dev.local
  A(<<"dev", "local">>, TRUE, FALSE),            \* dev.local.   (fully qualified)
  A(<<"other", "local">>, FALSE, FALSE),
  A(<<"dev", "example", "com">>, FALSE, FALSE),
  A(<<"192", "168", "1", "2">>, FALSE, FALSE),   \* IPv4 literal
  A(<<"fe80::1">>, FALSE, TRUE),                 \* IPv6 literal
  A(<<"other">>, FALSE, FALSE),
  A(<<"local">>, FALSE, FALSE),                  \* the bare name "local" is not a .local name
  A(<<"dev">>, TRUE, FALSE),                     \* "dev." is neither bare nor .local
  A(<<"local", "example", "com">>, FALSE, FALSE) \* .local must be the suffix
>>
NoAddr == A(<<>>, FALSE, FALSE)
Names == {"", "dev", "other"}                    \* "" stands for both None and the empty string

IsNamePart(a) == Len(a.labels) = 1 /\ ~a.dot /\ ~a.colon
IsLocal(a) == Len(a.labels) >= 2 /\ a.labels[Len(a.labels)] = "local"
First(a) == a.labels[1]
Is(a, n) == Len(a.labels) = 1 /\ ~a.dot /\ a.labels[1] = n            \* the address is exactly the string n
StartsWithName(a, n) == a.labels[1] = n /\ (Len(a.labels) >= 2 \/ a.dot)  \* the address starts with "<n>."

RECURSIVE Walk(_, _, _)
Walk(addrs, name, pref) ==
  IF addrs = <<>> THEN [name |-> name, pref |-> pref]
  ELSE LET a == Head(addrs) IN
       IF (name = "" /\ IsLocal(a)) \/ IsNamePart(a) THEN Walk(Tail(addrs), First(a), pref)
       ELSE IF pref = NoAddr THEN Walk(Tail(addrs), name, a)
       ELSE Walk(Tail(addrs), name, pref)

Expected(name, addrs, conn) ==
  LET w == Walk(addrs, name, conn) IN
  IF w.pref = NoAddr THEN (IF w.name # "" THEN [k |-> "name", name |-> w.name, addr |-> NoAddr]
                            ELSE [k |-> "addr", name |-> "", addr |-> addrs[1]])
  ELSE IF w.name # "" /\ ~Is(w.pref, w.name) /\ ~StartsWithName(w.pref, w.name)
       THEN [k |-> "at", name |-> w.name, addr |-> w.pref]
       ELSE [k |-> "addr", name |-> "", addr |-> w.pref]

U == {Universe[i] : i \in 1..Len(Universe)}
Lists == {<<a>> : a \in U} \cup {<<a, b>> : a \in U, b \in U}
         \cup {<<a, b, c>> : a \in {Universe[1], Universe[2], Universe[6]}, b \in {Universe[4], Universe[5], Universe[7]}, c \in {Universe[1], Universe[3], Universe[6], Universe[8]}}

VARIABLE done
Init == done = FALSE
EmitAll ==
  /\ \A n \in Names : \A l \in Lists : \A c \in U \cup {NoAddr} :
        PrintT(<<"LOGNAME", ToJson([name |-> n, addrs |-> l, conn |-> c, out |-> Expected(n, l, c)])>>)
  /\ \A a \in U : PrintT(<<"CLASS", ToJson([addr |-> a, namepart |-> IsNamePart(a), local |-> IsLocal(a)])>>)
Next == ~done /\ EmitAll /\ done' = TRUE
Spec == Init /\ [][Next]_done

\* properties of the rule itself, checked over every case
Sane == \A n \in Names : \A l \in Lists : \A c \in U \cup {NoAddr} :
          LET e == Expected(n, l, c) IN
          /\ e.k = "addr" => e.addr # NoAddr
          /\ c # NoAddr /\ e.k # "name" => e.addr = c              \* the connected address is always the one shown
          /\ e.k = "at" => ~Is(e.addr, e.name)
          /\ e.k = "name" => c = NoAddr /\ \A i \in 1..Len(l) : IsNamePart(l[i]) \/ IsLocal(l[i])
ASSUME Sane
=============================================================================
