CONSTANTS
  TResolve = 30
  TTcp = 60
  THandshake = 30
  THello = 30
  TDiscWait = 5
  TDiscResp = 10
  TCall = 10
  Configs <- KAConfigs
  MaxEnv = 5
  MaxFaults = 0
  Msgs <- KAMsgs
  MaxChunk = 1
  UseCalls = FALSE
  UseSubs = FALSE
  GenMode = FALSE
  StartConnected = TRUE
  Grid = 5
  TrackKA = TRUE
  NAddrs = {1}
  SubKinds = {"A"}
SPECIFICATION MCSpec
VIEW mcview
CONSTRAINT KAHorizon
INVARIANT ConnectedFlag
INVARIANT NoLateDeath
INVARIANT PongTimerOnlyAfterSilentPing
INVARIANT PongTimerExact
INVARIANT DeathWindow
INVARIANT SilentPeerDropped
INVARIANT StopAtMostOnce
INVARIANT Released
PROPERTY PingIffIdle
PROPERTY DeathExact
PROPERTY ClosedFinal
PROPERTY Silent
CHECK_DEADLOCK FALSE
