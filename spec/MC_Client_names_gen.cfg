CONSTANTS
  MaxConn = 2
  MaxSteps = 8
  UseNames = TRUE
  GenMode = TRUE
SPECIFICATION MSpec
VIEW mview
CHECK_DEADLOCK FALSE
