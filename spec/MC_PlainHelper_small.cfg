CONSTANTS
  FrameAlphabet <- MCAlphabet
  MaxFrames = 2
  MaxBytes = 11
  Kinds <- MCKinds
SPECIFICATION Spec
VIEW view
INVARIANT DeliveredExactlyComplete
INVARIANT TailRetained
INVARIANT BadPreamble
PROPERTY Monotone
CHECK_DEADLOCK FALSE
