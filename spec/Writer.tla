------------------------------- MODULE Writer -------------------------------
(***************************************************************************)
(* What the client writes (C02): every batch of (type, payload) packets is *)
(* one transport write whose bytes are, per packet, in order:              *)
(*   plaintext: 0x00, varint(len), varint(type), payload                   *)
(*   noise    : 0x01, 16-bit BE ciphertext length, AEAD(nonce, 16-bit type,*)
(*              16-bit len, payload) with nonces 0, 1, 2, ... per session  *)
(* The expected header bytes come from Wire.tla.                           *)
(***************************************************************************)
EXTENDS Naturals, Sequences, Wire, TLC, Json

CONSTANTS Packets,     \* set of [type, plen]
          MaxBatch, MaxWrites, Modes

VARIABLES mode, tx, wire, hist
vars == <<mode, tx, wire, hist>>
view == <<mode, tx, Len(wire)>>

\* expected encoding of one packet
PlainPacket(p) == [hdr |-> PlainHeader(p.type, p.plen), plen |-> p.plen]
NoisePacket(p, nonce) == [outer |-> NoiseOuter(CtLen(p.plen)), inner |-> NoiseInner(p.type, p.plen),
                          nonce |-> nonce, plen |-> p.plen]
Encode(m, batch, n0) ==
  IF m = "plain" THEN [i \in 1..Len(batch) |-> PlainPacket(batch[i])]
  ELSE [i \in 1..Len(batch) |-> NoisePacket(batch[i], n0 + i - 1)]

Init == mode \in Modes /\ tx = 0 /\ wire = <<>> /\ hist = <<>>

Write(batch) ==
  /\ wire' = Append(wire, Encode(mode, batch, tx))        \* exactly one write per batch
  /\ tx' = IF mode = "noise" THEN tx + Len(batch) ELSE tx
  /\ hist' = Append(hist, [batch |-> batch, enc |-> Encode(mode, batch, tx)])
  /\ UNCHANGED mode

\* Flow-control signals of the transport (protocol.pause_writing / resume_writing): the library does no
\* buffering of its own - a signal writes nothing, and every later batch is still written at once and in order.
FlowSignal == UNCHANGED vars

\* A batch the library refuses as a whole (an element that is no protocol message): nothing of it is written
\* and no nonce is consumed - the batches that follow stay consecutive.
RejectedBatch == UNCHANGED vars

Batches == UNION {[1..k -> Packets] : k \in 1..MaxBatch}
Next == (Len(wire) < MaxWrites /\ \E b \in Batches : Write(b)) \/ FlowSignal \/ RejectedBatch
Spec == Init /\ [][Next]_vars

\* nonces over the whole session are 0, 1, 2, ... without gap or repetition
RECURSIVE Flat(_)
Flat(w) == IF w = <<>> THEN <<>> ELSE Flat(SubSeq(w, 1, Len(w) - 1)) \o w[Len(w)]
NonceContinuity == mode = "noise" => LET f == Flat(wire) IN \A i \in 1..Len(f) : f[i].nonce = i - 1
\* representable lengths only (the documented inner length field is 16 bit)
Representable == \A p \in Packets : p.plen <= 65515 /\ p.type <= 65535

Edge == PrintT(<<"EDGE", ToJson([mode |-> mode, h |-> hist'])>>)
=============================================================================
