---------------------------- MODULE MC_Resolver ----------------------------
(* Case generation for the resolution procedure (every host list in the bounds, with the
   expected look-ups / result / error) and bounded model checking of the ownership machine. *)
EXTENDS Resolver
CONSTANTS MaxOps, Mode          \* Mode: "cases2" | "cases3" | "own"
VARIABLES k, printed
mvars == <<z, k, printed>>
LitHosts == {[form |-> f, mdns |-> "none", os |-> "empty"] : f \in Literals}
LocalHosts == {[form |-> f, mdns |-> m, os |-> o] : f \in Locals, m \in {"v4", "v6", "both", "none", "error"},
                                                   o \in {"v4", "v6", "mixed", "unknownFamily", "empty", "error"}}
FqdnHosts == {[form |-> "fqdn", mdns |-> "none", os |-> o] : o \in {"v4", "v6", "mixed", "unknownFamily", "empty", "error"}}
AllHosts == LitHosts \cup LocalHosts \cup FqdnHosts
SmallHosts == {[form |-> "v6scoped", mdns |-> "none", os |-> "empty"], [form |-> "v4lit", mdns |-> "none", os |-> "empty"],
               [form |-> "bare", mdns |-> "both", os |-> "v4"], [form |-> "dotLocal", mdns |-> "none", os |-> "mixed"],
               [form |-> "dotLocalDot", mdns |-> "error", os |-> "empty"], [form |-> "bare", mdns |-> "error", os |-> "error"],
               [form |-> "fqdn", mdns |-> "none", os |-> "v6"], [form |-> "fqdn", mdns |-> "none", os |-> "unknownFamily"],
               [form |-> "dotLocal", mdns |-> "v4", os |-> "error"], [form |-> "fqdn", mdns |-> "none", os |-> "error"]}
Cases == IF Mode = "cases3" THEN [1..3 -> SmallHosts]
         ELSE IF Mode = "cases2" THEN UNION {[1..n -> AllHosts] : n \in 1..2}
         ELSE {}
ProcOK(c) == LiteralsNeverLookedUp(c) /\ OrderKept(c) /\ NeverEmpty(c)
\* one evaluation of the whole case space: every case is printed with what the statement demands
EmitAll == \A c \in Cases : ProcOK(c) /\ PrintT(<<"CASE", ToJson([hosts |-> c, exp |-> Resolve(c)])>>)
MInit == ZInit /\ k = 0 /\ printed = FALSE
MNext ==
  \/ Mode # "own" /\ ~printed /\ EmitAll /\ printed' = TRUE /\ UNCHANGED <<z, k>>
  \/ Mode = "own" /\ k < MaxOps /\ k' = k + 1 /\ UNCHANGED printed
     /\ \E op \in {"set", "lookup", "listen", "stop"} :
          z' = CASE op = "set" -> SetInstance(z) [] op = "lookup" -> Lookup(z) [] op = "listen" -> Listen(z) [] op = "stop" -> StopClose(z)
MSpec == MInit /\ [][MNext]_mvars
=============================================================================
