--------------------------- MODULE TraceReconnect ---------------------------
(***************************************************************************)
(* Trace validation for Reconnect.tla.  A trace is the ordered stream of   *)
(* observable events of a run of the real ReconnectLogic on the real       *)
(* APIClient in the simulated world:                                       *)
(*   user rows   <<"start">> <<"stop">> <<"mdns", match>> <<"graceful">>   *)
(*   event rows  <<"attempt">> <<"error_cb", auth>> <<"connect_cb">>       *)
(*               <<"disconnect_cb", expected>> <<"zc_add">> <<"zc_remove">>*)
(*               <<"stop_ret">>                                            *)
(*   idle rows   <<"idle">> with a snapshot of the manager at rest         *)
(* each with its virtual time.  A specification step produces a sequence   *)
(* of events; the trace must be a concatenation of such sequences.         *)
(***************************************************************************)
EXTENDS Reconnect, Json, IOUtils

Traces == JsonDeserialize(IOEnv.TRACE_FILE)
NT == Len(Traces)
ASSUME \A i \in 1..NT : TLCSet(i, 0)
VARIABLES tid, l
tvars == <<r, tid, l>>
T == Traces[tid]
Rows == T.rows
TInit == tid \in 1..NT /\ l = 1 /\ RInit

\* silent internal steps (no observable event): progress of the attempt, a timer that fires into nothing
SilentOnce(x) == {y \in TcpUp(x) \cup TimerFire(x) \cup TaskGo(x) : y.ev = <<>>}
Silent(x) == {x} \cup SilentOnce(x) \cup UNION {SilentOnce(y) : y \in SilentOnce(x)}

\* time passes to t; a retry timer on the way fires at its own instant and must be silent there
RECURSIVE AdvTo(_, _)
AdvTo(x, t) ==
  IF t <= x.now THEN {x}
  ELSE IF x.timer # NoT /\ x.timer < t /\ x.timer >= x.now
       THEN UNION {AdvTo(y, t) : y \in {z \in TimerFire([x EXCEPT !.now = x.timer]) : z.ev = <<>>}}
       ELSE {[x EXCEPT !.now = t]}

EvAt(i) == Rows[i].e
\* the events a step produced are exactly the next rows (same instant)
Produces(y, from, t) ==
  /\ from + Len(y.ev) - 1 <= Len(Rows)
  /\ \A i \in 1..Len(y.ev) : EvAt(from + i - 1) = y.ev[i] /\ Rows[from + i - 1].t = t

Eventful(x) == Fail(x, TRUE) \cup Fail(x, FALSE) \cup Succeed(x) \cup SessionEnd(x, TRUE) \cup SessionEnd(x, FALSE)
               \cup TcpUp(x) \cup TimerFire(x) \cup TaskGo(x) \cup StopGo(x)

SnapOK(x, sn) ==
  /\ x.rs = sn.rs /\ x.started = sn.started /\ x.tries = sn.tries /\ x.timer = sn.timer /\ x.listen = sn.listen
  /\ AtRest(x)

TStep ==
  /\ l <= Len(Rows)
  /\ LET row == Rows[l] e == row.e IN
       \E x0 \in AdvTo(r, row.t) : \E x \in Silent(x0) :
         \/ /\ e[1] = "start" /\ \E y \in UserStart(x) : Produces(y, l + 1, row.t) /\ r' = y /\ l' = l + 1 + Len(y.ev)
         \/ /\ e[1] = "stop"  /\ \E y \in UserStop(x)  : Produces(y, l + 1, row.t) /\ r' = y /\ l' = l + 1 + Len(y.ev)
         \/ /\ e[1] = "mdns"  /\ \E y \in Mdns(x, e[2]) : Produces(y, l + 1, row.t) /\ r' = y /\ l' = l + 1 + Len(y.ev)
         \/ /\ e[1] = "graceful" /\ \E y \in Graceful(x) : r' = y /\ l' = l + 1
         \/ /\ e[1] = "verdict_bad" /\ \E y \in VerdictBad(x) : r' = y /\ l' = l + 1
         \/ /\ e[1] = "idle"  /\ SnapOK(x, row.snap) /\ r' = Begin(x) /\ l' = l + 1
         \/ /\ e[1] \notin {"start", "stop", "mdns", "idle", "graceful", "verdict_bad"}
            /\ \E y \in Eventful(x) : y.ev # <<>> /\ Produces(y, l, row.t) /\ r' = y /\ l' = l + Len(y.ev)
  /\ UNCHANGED tid

TSpec == TInit /\ [][TStep]_tvars
Prog == TLCSet(tid, IF TLCGet(tid) < l THEN l ELSE TLCGet(tid))
Accepted == \A i \in 1..NT : IF TLCGet(i) = Len(Traces[i].rows) + 1 THEN TRUE ELSE PrintT(<<"REJECT", i, TLCGet(i)>>)
=============================================================================
