#!/bin/sh
# usage: try_wt.sh <patch.diff> <Cxx> [<Cxx> ...]
# Apply a patch to a scratch worktree of /repo's HEAD (never to /repo itself), run the quick checks against it
# (evidence / replay / cache files go to a scratch directory) and remove the worktree again.
P="$(readlink -f "$1")"; shift
B="$(mktemp -d /tmp/trywt-XXXXXX)"
trap 'git -C /repo worktree remove --force "$B/wt" >/dev/null 2>&1; rm -rf "$B"' EXIT INT TERM
git -C /repo worktree add -q --detach "$B/wt" HEAD || exit 2
git -C "$B/wt" apply "$P" || { echo "patch does not apply"; exit 2; }
for c in "$@"; do
  (cd /verif && env VERIF_REPO="$B/wt" VERIF_EVIDENCE_DIR="$B/ev" VERIF_REPLAY_DIR="$B/replay" VERIF_CACHE_DIR="$B/cache" \
     ./check "$c" --tier "${TIER:-quick}" 2>&1 | grep -E "VIOLATION|KNOWN-FINDING|signature|MACHINERY|^\[C" | head -12)
done
