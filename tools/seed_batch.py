#!/usr/bin/env python3
"""Confirm candidate breaking changes and run the checks against them.

usage: seed_batch.py <Cxx>[:Cyy,Czz] ...      (candidates in /tmp/mut/<Cxx>/$SEED_DIR/<k>/; SEED_OFFSET renumbers them;
                                               SEED_LAZY=1: the extra checks Cyy,Czz only run when Cxx's own check misses)

For every candidate: (1) the patch applies to a scratch worktree at /repo's HEAD,
(2) the repository's test-suite result is unchanged with it, (3) the demonstration
fails with it and passes without it, (4) the quick check of the property (and any
extra checks named in CHECKS_FOR) is run with VERIF_REPO pointing at the patched
worktree, evidence and replay files redirected to a scratch directory.
Confirmed candidates are copied to /verif/seeded/<Cxx>-<k>/ with meta.json.
The scratch worktree is always restored (git checkout -- .).
"""

import json
import os
import shutil
import subprocess
import sys
import tempfile
from pathlib import Path

VERIF = Path(__file__).resolve().parent.parent  # the (snapshot of the) framework that runs the checks
SEEDED = Path("/verif/seeded")
MUT = Path("/tmp/mut")
PY = "/venv/bin/python"


def sh(cmd, cwd=None, env=None, timeout=3600):
    e = dict(os.environ)
    e.update(env or {})
    p = subprocess.run(cmd, shell=True, cwd=cwd, env=e, capture_output=True, text=True, timeout=timeout)
    return p.returncode, p.stdout + p.stderr


def suite(wt: Path) -> str:
    rc, out = sh(f"{PY} -m pytest -q -p no:cacheprovider --timeout=900 -x -q 2>&1 | tail -3", cwd=wt)
    rc, out = sh(f"{PY} -m pytest -q -p no:cacheprovider --timeout=900 2>&1 | tail -2", cwd=wt)
    return out.strip().splitlines()[-1] if out.strip() else "?"


def main():
    head = subprocess.check_output(["git", "-C", "/repo", "rev-parse", "--short", "HEAD"], text=True).strip()
    for pid in sys.argv[1:]:
        extra = []
        if ":" in pid:
            pid, more = pid.split(":")
            extra = more.split(",")
        src = MUT / pid  # where the candidates were written (an agent may still be working there)
        wt = Path(tempfile.mkdtemp(prefix=f"seedwt-{pid}-")) / "wt"  # our own scratch worktree of /repo's HEAD
        rc, out = sh(f"git -C /repo worktree add -q --detach {wt} HEAD")
        if rc != 0:
            print(json.dumps({"property": pid, "error": "worktree: " + out[-200:]}))
            continue
        for cand in sorted((src / os.environ.get("SEED_DIR", "_out")).glob("*")):
            k = cand.name
            if k.isdigit():
                k = str(int(k) + int(os.environ.get("SEED_OFFSET", "0")))
            patch = cand / "patch.diff"
            demo = cand / "demo.py"
            if not demo.exists():
                demo = cand / "test_demo.py"
            res = {"property": pid, "candidate": k, "repo_head": head}
            sh("git checkout -q -- .", cwd=wt)
            # the demonstration runs in the worktree it was written for (some demos name it): clean, then patched
            sh("git checkout -q -- .", cwd=src)
            rc, out = sh(f"{PY} {demo}", cwd=src, env={"PYTHONPATH": str(src)})
            res["demo_clean_rc"] = rc
            rc, out = sh(f"git apply {patch}", cwd=src)
            if rc == 0:
                rc2, out2 = sh(f"{PY} {demo}", cwd=src, env={"PYTHONPATH": str(src)})
                res["demo_patched_rc"] = rc2
                sh("git checkout -q -- .", cwd=src)
            rc, out = sh(f"git apply {patch}", cwd=wt)
            if rc != 0:
                res["error"] = "patch does not apply: " + out[-300:]
                print(json.dumps(res))
                continue
            try:
                res["suite_patched"] = suite(wt)
                scratch = Path(tempfile.mkdtemp(prefix="seedrun-"))
                env = {"VERIF_REPO": str(wt), "VERIF_EVIDENCE_DIR": str(scratch / "ev"), "VERIF_REPLAY_DIR": str(scratch / "replay")}
                res["checks"] = {}
                env["VERIF_CACHE_DIR"] = str(scratch / "cache")
                for c in [pid] + extra:
                    if c != pid and os.environ.get("SEED_LAZY") and any(v["rc"] == 1 for v in res["checks"].values()):
                        break  # already detected: the neighbouring checks are only consulted for a miss
                    rc, out = sh(f"./check {c} --tier quick", cwd=VERIF, env=env, timeout=5400)
                    sigs = [l.strip() for l in out.splitlines() if "signature:" in l][:6]
                    res["checks"][c] = {"rc": rc, "signatures": sigs, "tail": out.strip().splitlines()[-1] if out.strip() else ""}
                    if rc not in (0, 1):
                        res["checks"][c]["output_tail"] = out[-1500:]
                shutil.rmtree(scratch, ignore_errors=True)
            finally:
                sh("git checkout -q -- .", cwd=wt)
            ok = res.get("demo_clean_rc") == 0 and res.get("demo_patched_rc", 0) != 0 and "401 passed" in res.get("suite_patched", "") and "1 failed" in res.get("suite_patched", "")
            res["confirmed"] = ok
            res["detected_by"] = [c for c, v in res["checks"].items() if v["rc"] == 1]
            print(json.dumps(res), flush=True)
            if ok:
                dst = SEEDED / f"{pid}-{k}"
                dst.mkdir(parents=True, exist_ok=True)
                shutil.copy(patch, dst / "patch.diff")
                shutil.copy(demo, dst / demo.name)
                meta = json.loads((cand / "meta.json").read_text()) if (cand / "meta.json").exists() else {}
                meta.update(
                    {
                        "property": pid,
                        "confirmed": {
                            "repo_head": head,
                            "suite_with_patch": res["suite_patched"],
                            "demo_exit_clean": res["demo_clean_rc"],
                            "demo_exit_patched": res["demo_patched_rc"],
                        },
                        "checks_run": {c: {"exit": v["rc"], "signatures": v["signatures"]} for c, v in res["checks"].items()},
                        "detected_by": res["detected_by"],
                        "how_run": "patch applied to a scratch worktree of /repo at the recorded head; ./check <id> --tier quick with VERIF_REPO=<worktree>",
                    }
                )
                (dst / "meta.json").write_text(json.dumps(meta, indent=1) + "\n")
        sh(f"git -C /repo worktree remove --force {wt}")
        shutil.rmtree(wt.parent, ignore_errors=True)


if __name__ == "__main__":
    main()
