#!/usr/bin/env python3
"""Stop checks that were started from /verif itself (not the snapshots of background runs)."""
import os
import signal

me = os.getpid()
for pid in os.listdir("/proc"):
    if not pid.isdigit() or int(pid) == me:
        continue
    try:
        cmd = open(f"/proc/{pid}/cmdline", "rb").read().split(b"\0")
    except OSError:
        continue
    if len(cmd) >= 4 and cmd[0].endswith(b"python") and b"/verif/vf/cli.py" in cmd and cmd[cmd.index(b"/verif/vf/cli.py")] == b"/verif/vf/cli.py":
        print("kill", pid, b" ".join(cmd[-4:]).decode())
        os.kill(int(pid), signal.SIGTERM)
    elif cmd and cmd[0] in (b"sh", b"/bin/sh", b"bash", b"/bin/bash") and any(b"for p in C0" in c and b"./check $p" in c for c in cmd) and not any(b"runs/" in c for c in cmd):
        cwd = os.readlink(f"/proc/{pid}/cwd")
        if cwd == "/verif":
            print("kill loop", pid)
            os.kill(int(pid), signal.SIGTERM)
