#!/bin/sh
# usage: try_patch.sh <patch.diff> <Cxx> [<Cxx> ...]   — apply to /repo, run quick checks, always revert
P="$1"; shift
cd /repo || exit 2
git diff --quiet || { echo "repo dirty"; exit 2; }
git apply "$P" || { echo "patch does not apply"; exit 2; }
trap 'git -C /repo checkout -- . ' EXIT INT TERM
for c in "$@"; do
  (cd /verif && ./check "$c" --tier "${TIER:-quick}" 2>&1 | grep -E "VIOLATION|KNOWN-FINDING|signature|MACHINERY|^\[C" | head -12)
done
