#!/usr/bin/env python3
"""Re-run the checks against the seeded breaking changes kept in /verif/seeded.

usage: reseed.py [--full] [--tier quick|thorough] [--checks C05,C08] [<Cxx-k> ...]     (default: all seeds)

For every seed: the patch is applied to a scratch worktree of /repo's HEAD (outside /repo and /verif,
removed at the end), the property's own quick check and every check that detected the change before are
run with VERIF_REPO pointing at the patched worktree (evidence and replay files go to a scratch
directory), and meta.json is refreshed (`checks_run`, `detected_by`).  With --full the demonstration
(must pass without / fail with the patch) and the repository's test-suite (result unchanged) are
re-confirmed as well.  Prints one JSON line per seed; exit 1 if some seed is not detected.
"""

import json
import os
import shutil
import subprocess
import sys
import tempfile
from pathlib import Path

VERIF = Path(__file__).resolve().parent.parent  # the (snapshot of the) framework that runs the checks
SEEDED = Path(os.environ.get("SEEDED_DIR", "/verif/seeded"))
PY = "/venv/bin/python"


def sh(cmd, cwd=None, env=None, timeout=7200):
    e = dict(os.environ)
    e.update(env or {})
    p = subprocess.run(cmd, shell=True, cwd=cwd, env=e, capture_output=True, text=True, timeout=timeout)
    return p.returncode, p.stdout + p.stderr


def main():
    args = sys.argv[1:]
    full = "--full" in args
    tier = "quick"
    extra: list = []
    ids: list = []
    it = iter(args)
    for a in it:
        if a == "--full":
            continue
        if a == "--tier":
            tier = next(it)
        elif a == "--checks":
            extra = next(it).split(",")
        else:
            ids.append(a)
    if not ids:
        ids = sorted(p.name for p in SEEDED.iterdir() if (p / "patch.diff").exists())
    head = subprocess.check_output(["git", "-C", "/repo", "rev-parse", "--short", "HEAD"], text=True).strip()
    base = Path(tempfile.mkdtemp(prefix="reseed-"))
    wt = base / "wt"
    rc, out = sh(f"git -C /repo worktree add --detach {wt} HEAD")
    if rc != 0:
        print("cannot create worktree:", out)
        return 2
    missed = []
    try:
        for sid in ids:
            d = SEEDED / sid
            meta = json.loads((d / "meta.json").read_text())
            pid = meta["property"]
            res = {"seed": sid, "repo_head": head}
            sh("git checkout -q -- . && git clean -fdq", cwd=wt)
            demo = d / "demo.py" if (d / "demo.py").exists() else d / "test_demo.py"
            if full:
                rc, _ = sh(f"{PY} {demo}", cwd=wt, env={"PYTHONPATH": str(wt)})
                res["demo_clean_rc"] = rc
            rc, out = sh(f"git apply {d / 'patch.diff'}", cwd=wt)
            if rc != 0:
                res["error"] = "patch does not apply: " + out[-300:]
                print(json.dumps(res), flush=True)
                missed.append(sid)
                continue
            try:
                if full:
                    rc, _ = sh(f"{PY} {demo}", cwd=wt, env={"PYTHONPATH": str(wt)})
                    res["demo_patched_rc"] = rc
                    rc, out = sh(f"{PY} -m pytest -q -p no:cacheprovider --timeout=900 2>&1 | tail -2", cwd=wt)
                    res["suite_patched"] = out.strip().splitlines()[-1] if out.strip() else "?"
                scratch = base / "scratch"
                env = {"VERIF_REPO": str(wt), "VERIF_EVIDENCE_DIR": str(scratch / "ev"), "VERIF_REPLAY_DIR": str(scratch / "replay"), "VERIF_CACHE_DIR": str(scratch / "cache")}
                checks = [pid] + [c for c in meta.get("detected_by", []) if c != pid] + [c for c in extra if c != pid]
                res["checks"] = {}
                for c in dict.fromkeys(checks):
                    rc, out = sh(f"./check {c} --tier {tier}", cwd=VERIF, env=env)
                    sigs = [l.strip() for l in out.splitlines() if "signature:" in l][:6]
                    res["checks"][c] = {"rc": rc, "signatures": sigs, "tail": out.strip().splitlines()[-1][:300] if out.strip() else ""}
                    if rc not in (0, 1):
                        res["checks"][c]["output_tail"] = out[-1500:]
                shutil.rmtree(scratch, ignore_errors=True)
            finally:
                sh("git checkout -q -- . && git clean -fdq", cwd=wt)
            res["detected_by"] = [c for c, v in res["checks"].items() if v["rc"] == 1]
            print(json.dumps(res), flush=True)
            if not res["detected_by"]:
                missed.append(sid)
            if full:
                meta["confirmed"] = {"repo_head": head, "suite_with_patch": res["suite_patched"], "demo_exit_clean": res["demo_clean_rc"],
                                     "demo_exit_patched": res["demo_patched_rc"]}
            if tier == "quick":
                meta["checks_run"] = {c: {"exit": v["rc"], "signatures": v["signatures"]} for c, v in res["checks"].items()}
                meta["detected_by"] = res["detected_by"]
                meta["how_run"] = ("patch applied to a scratch worktree of /repo at the recorded head; ./check <id> --tier quick with "
                                   "VERIF_REPO=<worktree> (tools/reseed.py)")
                (d / "meta.json").write_text(json.dumps(meta, indent=1) + "\n")
    finally:
        sh(f"git -C /repo worktree remove --force {wt}")
        shutil.rmtree(base, ignore_errors=True)
    print("MISSED:", missed)
    return 1 if missed else 0


if __name__ == "__main__":
    sys.exit(main())
