#!/usr/bin/env python3
"""Write /verif/seeded/INDEX.md: every kept breaking change, the property it was written against, what it needs
in order to manifest, and which checks detect it (from the meta.json files, refreshed by tools/reseed.py)."""
import json
from pathlib import Path

SEEDED = Path(__file__).resolve().parent.parent / "seeded"


def key(p: Path):
    a, b = p.name.split("-")
    return (a, int(b))


def main():
    rows = []
    for d in sorted((p for p in SEEDED.iterdir() if (p / "meta.json").exists()), key=key):
        m = json.loads((d / "meta.json").read_text())
        det = m.get("detected_by") or []
        summary = " ".join(str(m.get("summary", "")).split())[:180]
        rows.append((d.name, m.get("property", "?"), ", ".join(det) if det else "**none**", summary))
    out = ["# Seeded breaking changes", "",
           "One directory per change (`patch.diff`, demonstration, `meta.json`).  `detected by` lists the checks whose quick tier",
           "reports a VIOLATION with the patch applied (own check first; neighbouring checks are only consulted when it misses).", "",
           "| change | written against | detected by | what it does |", "|---|---|---|---|"]
    for r in rows:
        out.append("| " + " | ".join(x.replace("|", "/") for x in r) + " |")
    missed = [r[0] for r in rows if r[2] == "**none**"]
    own = sum(1 for r in rows if r[1] in r[2].split(", "))
    out += ["", f"{len(rows)} changes; {len(rows) - len(missed)} detected ({own} by the check of the property they were written against); "
            f"not detected: {', '.join(missed) if missed else 'none'} (see DESIGN.md §8)."]
    (SEEDED / "INDEX.md").write_text("\n".join(out) + "\n")
    print(out[-1])


if __name__ == "__main__":
    main()
