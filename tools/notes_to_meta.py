#!/usr/bin/env python3
"""Fill summary / needs_to_manifest of /verif/seeded/<Cxx>-<k>/meta.json from the candidate's notes.md
(wave 7 candidates came with notes.md instead of meta.json).  usage: notes_to_meta.py <wave dir name> <offset> Cxx..."""
import json
import re
import sys
from pathlib import Path

wave, off = sys.argv[1], int(sys.argv[2])
for pid in sys.argv[3:]:
    for cand in sorted(Path(f"/tmp/mut/{pid}/{wave}").glob("[0-9]*")):
        dst = Path(f"/verif/seeded/{pid}-{int(cand.name) + off}")
        notes = cand / "notes.md"
        if not (dst / "meta.json").exists() or not notes.exists():
            continue
        meta = json.loads((dst / "meta.json").read_text())
        text = notes.read_text()
        secs = {m.group(1).strip().lower(): m.group(2).strip() for m in re.finditer(r"^##+\s*(.+?)\n(.*?)(?=^##+\s|\Z)", text, re.S | re.M)}
        title = text.strip().splitlines()[0].lstrip("# ").strip()

        def pick(*keys):
            for k, v in secs.items():
                if any(x in k for x in keys):
                    return " ".join(v.split())
            return ""

        meta.setdefault("summary", (title + ". " + pick("change", "what was changed") + " " + pick("why", "violat")).strip()[:2500])
        meta.setdefault("needs_to_manifest", pick("need", "manifest")[:1500])
        meta.setdefault("wave", 7)
        (dst / "notes.md").write_text(text)
        (dst / "meta.json").write_text(json.dumps(meta, indent=1) + "\n")
        print(dst.name, "ok", len(meta["summary"]), len(meta["needs_to_manifest"]))
