"""Per-run context: evidence accumulation, violation reporting, known findings."""

from __future__ import annotations

import hashlib
import json
import os
import re
import shutil
import sys
import tempfile
import time
from pathlib import Path

from . import tlc as tlcmod

ROOT = Path(__file__).resolve().parent.parent
# mutation self-tests point these elsewhere so that they never touch the real evidence
EVIDENCE_DIR = Path(os.environ.get("VERIF_EVIDENCE_DIR", ROOT / "evidence"))
REPLAY_DIR = Path(os.environ.get("VERIF_REPLAY_DIR", ROOT / "out" / "replay"))
FINDINGS_FILE = ROOT / "known_findings.txt"
REPO = Path(os.environ.get("VERIF_REPO", "/repo"))


def load_findings() -> list[dict]:
    """known_findings.txt lines:

    known: property=<id> sig=<regex> :: <what fails>
    fixed: property=<id> <commit> <what failed>

    Only ``known`` lines suppress anything; the file is never written at run time.
    """
    res = []
    if not FINDINGS_FILE.exists():
        return res
    for line in FINDINGS_FILE.read_text().splitlines():
        line = line.strip()
        if not line or line.startswith("#"):
            continue
        m = re.match(r"known:\s+property=(\S+)\s+sig=(\S+)\s+::\s+(.*)", line)
        if m:
            res.append({"status": "known", "property": m.group(1), "sig": m.group(2), "what": m.group(3)})
            continue
        m = re.match(r"fixed:\s+property=(\S+)\s+(\S+)\s+(.*)", line)
        if m:
            res.append({"status": "fixed", "property": m.group(1), "commit": m.group(2), "what": m.group(3)})
    return res


class MachineryError(RuntimeError):
    pass


class Ctx:
    def __init__(self, pid: str, tier: str, seed: int, level: str = "model_checking"):
        self.pid = pid
        self.tier = tier
        self.seed = seed
        self.level = level
        self.t0 = time.time()
        self.tmp = Path(tempfile.mkdtemp(prefix=f"verif-{pid}-"))
        self.states = 0
        self.transitions = 0
        self.traces_validated = 0
        self.replayed = 0
        self.evaluations = 0
        self.distinct: set = set()
        self.samples: list = []
        self.tlc_runs: list = []
        self.assumptions: list[str] = []
        self.notes: list[str] = []
        self.not_exercised: list[str] = []
        self.undecided: list[str] = []
        self.extra: dict = {}
        self.violations: list[dict] = []
        self.known_hits: dict[str, int] = {}
        self.findings = [f for f in load_findings() if f["property"] == pid and f["status"] == "known"]
        self.rule = ""
        self.exhaustive = False

    @property
    def quick(self) -> bool:
        return self.tier == "quick"

    # ------------------------------------------------------------------ TLC
    def tlc(self, module: str, cfg: str | None = None, *, model_check: bool = True, **kw) -> tlcmod.TLCResult:
        """Run TLC; a violated specification property on the *model* is a machinery
        failure (the specification is wrong), unless the caller asks for it."""
        kw.setdefault("allow_violation", False)
        r = tlcmod.run_tlc(module, cfg, **kw)
        self.states += r.distinct
        self.transitions += r.generated
        run = {
            "module": module,
            "cfg": cfg or module + ".cfg",
            "distinct_states": r.distinct,
            "states_generated": r.generated,
            "depth": r.depth,
            "wall_s": round(r.wall_s, 2),
        }
        if r.coverage:
            run["action_coverage"] = {k: v[1] for k, v in sorted(r.coverage.items())}
            for k, v in r.coverage.items():
                if v[1] == 0:
                    self.not_exercised.append(f"{module}.{k}")
        self.tlc_runs.append(run)
        return r

    # ----------------------------------------------------------- accounting
    def case(self, key, sample=None, nontrivial: bool = True) -> None:
        self.evaluations += 1
        if nontrivial:
            self.distinct.add(key if isinstance(key, (str, int, tuple)) else json.dumps(key, sort_keys=True, default=str))
        if sample is not None and len(self.samples) < 6:
            self.samples.append(sample)

    def sample(self, s) -> None:
        if len(self.samples) < 8:
            self.samples.append(s)

    # ----------------------------------------------------------- violations
    def violation(self, sig: str, detail: dict, pid: str | None = None) -> None:
        """Record a mismatch between the code and the specification.

        ``sig`` is the finding signature (action / field / discriminating args).
        """
        pid = pid or self.pid
        for f in self.findings:
            if f["property"] == pid and re.fullmatch(f["sig"], sig):
                self.known_hits[f["what"]] = self.known_hits.get(f["what"], 0) + 1
                return
        if any(v["sig"] == sig for v in self.violations):
            # same signature: count, keep first replay only
            for v in self.violations:
                if v["sig"] == sig:
                    v["count"] += 1
            return
        REPLAY_DIR.mkdir(parents=True, exist_ok=True)
        h = hashlib.sha1(sig.encode()).hexdigest()[:10]
        path = REPLAY_DIR / f"{pid}-{h}.json"
        path.write_text(json.dumps({"property": pid, "sig": sig, "tier": self.tier, "seed": self.seed, **detail}, indent=1, default=str))
        self.violations.append({"sig": sig, "path": str(path), "count": 1, "pid": pid})

    # --------------------------------------------------------------- finish
    def finish(self) -> int:
        wall = time.time() - self.t0
        cov: dict = {
            "states": self.states,
            "transitions": self.transitions,
            "traces_validated_against_impl": self.traces_validated,
            "behaviours_replayed_into_impl": self.replayed,
            "evaluations": self.evaluations,
            "distinct_nontrivial": len(self.distinct),
            "rule": self.rule,
            "samples": self.samples or ["(no sample recorded)"],
            "exhaustive": self.exhaustive,
            "tlc_runs": self.tlc_runs,
            "actions_not_exercised": sorted(set(self.not_exercised)),
            "clauses_undecided": self.undecided,
            "known_findings_hit": self.known_hits,
            "notes": self.notes,
        }
        cov.update(self.extra)
        ev = {
            "property_id": self.pid,
            "tier": self.tier,
            "seed": self.seed,
            "level": self.level,
            "coverage": cov,
            "assumptions": self.assumptions,
            "wall_s": round(wall, 2),
            "violations": len(self.violations),
        }
        EVIDENCE_DIR.mkdir(exist_ok=True)
        (EVIDENCE_DIR / f"{self.pid}.json").write_text(json.dumps(ev, indent=1, default=str) + "\n")
        for what, n in self.known_hits.items():
            print(f"KNOWN-FINDING: property={self.pid} {what} (hit {n}x)")
        for v in self.violations:
            print(f"VIOLATION property={v['pid']} replay={v['path']}")
            print(f"  signature: {v['sig']} (x{v['count']})")
        shutil.rmtree(self.tmp, ignore_errors=True)
        status = "FAIL" if self.violations else "ok"
        print(
            f"[{self.pid}] {status} tier={self.tier} seed={self.seed} states={self.states} "
            f"transitions={self.transitions} traces={self.traces_validated} replayed={self.replayed} "
            f"cases={self.evaluations} wall={wall:.1f}s"
        )
        sys.stdout.flush()
        return 1 if self.violations else 0

    def cleanup(self) -> None:
        shutil.rmtree(self.tmp, ignore_errors=True)
