"""Helper-level harness for the Noise frame helper (C02 noise half, C03, C04).

Materialises the symbolic frames of NoiseHelper.tla as real bytes with the
independent responder of vf.devices, feeds them to the real APINoiseFrameHelper
through a SimTransport (so that escaping exceptions become connection_lost(exc)
one iteration later, as in asyncio) and projects what the specification talks
about.
"""

from __future__ import annotations

import base64
import os
import random

from . import devices, simloop, simnet


def err_class(exc, expect_name=None) -> str:
    from aioesphomeapi.core import (
        APIConnectionError,
        BadNameAPIError,
        HandshakeAPIError,
        InvalidEncryptionKeyAPIError,
        ProtocolAPIError,
        RequiresEncryptionAPIError,
    )

    if isinstance(exc, InvalidEncryptionKeyAPIError):
        return "invalidkey"
    if isinstance(exc, BadNameAPIError):
        if expect_name is not None and getattr(exc, "received_name", None) != expect_name:
            return f"badname-without-received-name({getattr(exc, 'received_name', None)!r})"
        return "badname"
    if isinstance(exc, HandshakeAPIError):
        return "handshake"
    if isinstance(exc, RequiresEncryptionAPIError):
        return "encryption"
    if isinstance(exc, ProtocolAPIError):
        return "protocol"
    if type(exc) is APIConnectionError:
        return "closed"
    return "other:" + type(exc).__name__


class NoiseSession:
    """One client helper + one device, frames materialised on demand."""

    def __init__(self, rng: random.Random, dev_name, exp_name, loop=None, hp: int = 0, mac: bool = False):
        from aioesphomeapi._frame_helper.noise import APINoiseFrameHelper

        self.rng = rng
        self.loop = loop or simloop.new_loop()
        self.psk = rng.randbytes(32)
        self.dev_name = None if dev_name == "none" else dev_name
        self.conn = devices.RecordingConnection()
        self.helper = APINoiseFrameHelper(
            connection=self.conn,
            noise_psk=base64.b64encode(self.psk).decode(),
            expected_name=None if exp_name == "none" else exp_name,
            client_info="verif",
            log_name="verif",
        )
        self.sock = simnet.SimSocket()
        self.tr = simnet.SimTransport(self.loop, self.sock, self.helper)
        self.loop.run_until_idle()
        self.device = devices.NoiseDevice(self.psk, self.dev_name)
        self.hello_write = b"".join(self.tr.writes)
        bodies = self.device.feed_client_bytes(self.hello_write)
        self.client_bodies = bodies
        self.hp = hp
        self.mac = mac
        self.hs_good = self.device.handshake_reply(bodies[1], rng.randbytes(hp)) if len(bodies) == 2 else None
        self.other_key = rng.randbytes(32)
        self.msgs: dict[int, tuple[int, bytes]] = {}

    def msg(self, idx: int, plen: int):
        if idx not in self.msgs:
            t = self.rng.choice((1, 2, 5, 50, 123, 255, 256, 300, 65535))
            self.msgs[idx] = (t, self.rng.randbytes(plen))
        return self.msgs[idx]

    def foreign_handshake(self) -> bytes:
        """A responder handshake message from a session under another key."""
        from noise.connection import NoiseConnection

        other = self.rng.randbytes(32)
        ini = NoiseConnection.from_name(devices.NOISE_NAME)
        ini.set_as_initiator()
        ini.set_psks(other)
        ini.set_prologue(devices.PROLOGUE)
        ini.start_handshake()
        m1 = ini.write_message()
        res = NoiseConnection.from_name(devices.NOISE_NAME)
        res.set_as_responder()
        res.set_psks(other)
        res.set_prologue(devices.PROLOGUE)
        res.start_handshake()
        res.read_message(m1)
        return res.write_message(self.rng.randbytes(self.hp))

    def frame_bytes(self, f: dict, devk: str) -> bytes:
        """Bytes of one symbolic frame (see NoiseHelper.tla)."""
        k = f["k"]
        if k == "hello":
            if f["blen"] == 0:
                body = b""
            else:
                body = bytes((f["proto"],))
                if f["name"] != "none":
                    body += f["name"].encode() + b"\x00"
                    if self.mac and len(body) < f["blen"]:
                        from vf.props.noise_common import MAC_EXT

                        body += MAC_EXT
        elif k == "hs":
            if f["key"] == "bad":
                body = b"\x00" + self.foreign_handshake()
            else:
                body = self.hs_good[3:]
            if f["integ"] == "bad" and devk in ("body", "tag"):
                pos = (1 + self.rng.randrange(32)) if devk == "body" else (len(body) - 1 - self.rng.randrange(16))
                body = body[:pos] + bytes((body[pos] ^ (1 << self.rng.randrange(8)),)) + body[pos + 1 :]
        elif k == "hserr":
            text = "Handshake MAC failure" if f["name"] == "mac" else "Bad thing:("
            body = b"\x01" + text.encode()
        elif k == "data":
            t, payload = self.msg(f["idx"], f["blen"] - 20)
            key = self.device.send_key if f["key"] == "good" else self.other_key
            body = self.device.encrypt_with(key, f["nonce"], t, payload)
            if f["integ"] == "bad" and devk in ("body", "tag"):
                pos = self.rng.randrange(len(body) - 16) if devk == "body" else (len(body) - 1 - self.rng.randrange(16))
                body = body[:pos] + bytes((body[pos] ^ (1 << self.rng.randrange(8)),)) + body[pos + 1 :]
        else:
            raise ValueError(k)
        assert len(body) == f["blen"], (k, len(body), f["blen"])
        claim = f["claim"]
        marker = 1 if f["marker"] == 1 else 0
        return bytes((marker, claim >> 8, claim & 0xFF)) + body

    def stream(self, frames: list[dict], devk: str) -> bytes:
        return b"".join(self.frame_bytes(f, devk) for f in frames)

    # ---- observation
    def observe(self) -> dict:
        h = self.helper
        fut = h.ready_future
        if not fut.done():
            ready = "pending"
        elif fut.cancelled():
            ready = "cancelled"
        elif fut.exception() is None:
            ready = "ok"
        else:
            ready = err_class(fut.exception(), self.dev_name)
        rep = [err_class(self.conn.errors[0], self.dev_name)] if self.conn.errors else []
        return {"nd": len(self.conn.packets), "ready": ready, "rep": rep, "closed": self.tr.is_closing()}

    def delivered_exact(self) -> bool:
        n = len(self.conn.packets)
        return self.conn.packets == [self.msgs.get(i + 1) for i in range(n)]

    def client_nonces(self, data: bytes):
        """Decode one client write: list of (nonce, type, payload, declared_len) or None per frame."""
        out = []
        for body in self.device.feed_client_bytes(data):
            found = None
            for n in range(0, self.device.rx_nonce + 64):
                r = self.device.decrypt_client(body, n)
                if r is not None:
                    found = (n, *r)
                    break
            out.append(found)
            if found is not None:
                self.device.rx_nonce = max(self.device.rx_nonce, found[0] + 1)
        return out


def compare_obs(exp: list, obs: dict):
    """exp = [a, n, nd, ready(set), rep, closed, strict] from the model."""
    _, _, nd, ready, rep, closed, strict = exp
    if obs["nd"] != nd:
        return "delivered_count", nd, obs["nd"]
    if not strict:
        return None
    if "any" not in ready and obs["ready"] not in ready:
        return "ready", ready, obs["ready"]
    if bool(rep) != bool(obs["rep"]):
        return "reported", rep, obs["rep"]
    if rep and "any" not in rep[0] and obs["rep"][0] not in rep[0]:
        return "reported_class", rep, obs["rep"]
    if obs["closed"] != closed:
        return "transport_closed", closed, obs["closed"]
    return None


def replay_behaviour(rng, nm, dev, frames, hist):
    """Execute one TLC behaviour of NoiseHelper on the real helper -> mismatch or None."""
    loop = simloop.new_loop()
    try:
        s = NoiseSession(rng, nm["dev"], nm["exp"], loop, hp=int(nm.get("hp", 0)))
        stream = s.stream(frames, dev["k"])
        pos = 0
        for i, h in enumerate(hist):
            if h[0] == "recv":
                s.tr.feed(stream[pos : pos + h[1]])
                pos += h[1]
            elif h[0] == "lost":
                loop.run_until_idle()
            obs = s.observe()
            mm = compare_obs(h, obs)
            if mm is None and not s.delivered_exact():
                mm = ("delivered_content", "messages the device encrypted, in order", str(s.conn.packets)[:200])
            if mm is not None:
                return {"step": i, "field": mm[0], "expected": mm[1], "observed": mm[2]}
        return None
    finally:
        loop.shutdown()


KEY_CLASSES = {
    "ok32": lambda r: base64.b64encode(r.randbytes(32)).decode(),
    "len0": lambda r: "",
    "len16": lambda r: base64.b64encode(r.randbytes(16)).decode(),
    "len31": lambda r: base64.b64encode(r.randbytes(31)).decode(),
    "len33": lambda r: base64.b64encode(r.randbytes(33)).decode(),
    "len64": lambda r: base64.b64encode(r.randbytes(64)).decode(),
    "badPadding": lambda r: base64.b64encode(r.randbytes(32)).decode()[:-2],
    "nonAscii": lambda r: "ключ" + base64.b64encode(r.randbytes(29)).decode(),
}


def try_key(key: str):
    """Construct a helper with `key` -> ("ok"|class, bytes written)."""
    from aioesphomeapi._frame_helper.noise import APINoiseFrameHelper

    loop = simloop.new_loop()
    try:
        conn = devices.RecordingConnection()
        try:
            helper = APINoiseFrameHelper(connection=conn, noise_psk=key, expected_name=None, client_info="v", log_name="v")
        except Exception as ex:  # noqa: BLE001
            return err_class(ex), 0
        tr = simnet.SimTransport(loop, simnet.SimSocket(), helper)
        loop.run_until_idle()
        return "ok", sum(len(w) for w in tr.writes)
    finally:
        loop.shutdown()
