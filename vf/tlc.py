"""Thin, strict driver around TLC.

Every property check goes through :func:`run_tlc`.  The function never guesses:
it returns the numbers TLC printed, the lines our specifications printed with
``PrintT`` and the list of violated invariants / properties.  Anything it cannot
parse (SANY errors, Java exceptions, a time-out) raises :class:`TLCFailure`,
which the CLI maps to exit code 2 (machinery failure), never to a VIOLATION.
"""

from __future__ import annotations

import dataclasses
import json
import os
import re
import shutil
import subprocess
import sys
import tempfile
import time
from pathlib import Path

SPEC_DIR = Path(__file__).resolve().parent.parent / "spec"
JAR = "/opt/veriftools/tla/tla2tools.jar:/opt/veriftools/tla/CommunityModules-deps.jar"


class TLCFailure(RuntimeError):
    """TLC itself failed (parse error, crash, time-out)."""


@dataclasses.dataclass
class TLCResult:
    ok: bool  # no invariant / property violated, no error
    generated: int
    distinct: int
    depth: int
    wall_s: float
    printed: list  # python values of PrintT'ed tuples that we could parse as JSON-ish
    raw_printed: list  # raw text of every PrintT line (bracket-matched)
    violated: list  # names of violated invariants / properties
    coverage: dict  # action name -> (distinct, total) from -coverage
    stdout: str
    cmd: str
    error_trace: str = ""


_RE_STATS = re.compile(r"(\d+) states generated, (\d+) distinct states found")
_RE_DEPTH = re.compile(r"The depth of the complete state graph search is (\d+)")
_RE_INV = re.compile(r"Invariant (\S+) is violated")
_RE_ACTPROP = re.compile(r"Action property (\S+) is violated")
_RE_TEMPORAL = re.compile(r"Temporal properties were violated")
_RE_COV = re.compile(r"^<(\w+) line \d+, col \d+ to line \d+, col \d+ of module (\w+)>: (\d+):(\d+)", re.M)


def _extract_printed(out: str) -> list[str]:
    """Return every top-level ``<<...>>`` printed by PrintT (bracket matched).

    With several workers TLC interleaves lines, so callers that print use
    ``workers=1``; still we match brackets instead of trusting newlines.
    """
    res = []
    for line in out.splitlines():
        s = line.strip()
        if s.startswith("<<") and s.endswith(">>"):
            res.append(s)
    return res


def tla_string_unescape(s: str) -> str:
    """Undo TLC's escaping of a printed string value (without the quotes)."""
    return s.replace('\\"', '"').replace("\\\\", "\\")


def parse_tagged(raw: list[str], tag: str) -> list:
    """Parse lines ``<<"TAG", "<json>">>`` (ToJson output inside a TLA string)."""
    res = []
    prefix = f'<<"{tag}", "'
    for s in raw:
        if s.startswith(prefix) and s.endswith('">>'):
            body = tla_string_unescape(s[len(prefix) : -3])
            res.append(json.loads(body))
    return res


def run_tlc(module: str, cfg: str | None = None, **kw) -> "TLCResult":
    """One TLC run; a run that dies for a reason that is not a verdict (killed, JVM out of resources on a loaded
    machine: exit code that is neither success nor a violation, output without a completion line) is repeated once."""
    try:
        return _run_tlc_once(module, cfg, **kw)
    except TLCFailure as ex:
        msg = str(ex)
        if not (msg.startswith("TLC exit") or msg.startswith("TLC did not finish")) or "Parsing or semantic" in msg:
            raise
        print(f"TLC run failed without a verdict, repeating once: {msg[:300]}", file=sys.stderr)
        time.sleep(5)
        return _run_tlc_once(module, cfg, **kw)


def _run_tlc_once(
    module: str,
    cfg: str | None = None,
    *,
    workers: int | str = "auto",
    simulate: str | None = None,
    depth: int | None = None,
    seed: int | None = None,
    env: dict | None = None,
    timeout: float = 1800,
    coverage: bool = False,
    deadlock: bool | None = None,
    extra: list[str] | None = None,
    spec_dir: Path | None = None,
    jvm: list[str] | None = None,
    dfs_queue: bool = False,
    allow_violation: bool = True,
) -> TLCResult:
    spec_dir = Path(spec_dir or SPEC_DIR)
    cfg = cfg or module + ".cfg"
    shm = "/dev/shm" if os.access("/dev/shm", os.W_OK) else None
    meta = tempfile.mkdtemp(prefix="tlcmeta-", dir=shm)
    nworkers = os.cpu_count() if workers == "auto" else int(workers)
    if nworkers <= 1:
        java = ["java", "-XX:+UseSerialGC", "-Xss16m", "-Xmx8g"]
    else:
        java = ["java", "-XX:+UseParallelGC", f"-XX:ParallelGCThreads={min(8, nworkers)}", "-Xss16m", "-Xmx24g"]
    if dfs_queue:
        java.append("-Dtlc2.tool.queue.IStateQueue=StateDeque")
    java += jvm or []
    cmd = java + ["-cp", JAR, "tlc2.TLC"]
    cmd += ["-metadir", meta, "-noGenerateSpecTE", "-config", cfg]
    cmd += ["-workers", str(workers)]
    if simulate is not None:
        cmd += ["-simulate", simulate]
    if depth is not None:
        cmd += ["-depth", str(depth)]
    if seed is not None:
        cmd += ["-seed", str(seed)]
    if coverage:
        cmd += ["-coverage", "1"]
    if deadlock is False:
        cmd += ["-deadlock"]
    cmd += extra or []
    cmd += [module + ".tla"]
    e = dict(os.environ)
    e.update({k: str(v) for k, v in (env or {}).items()})
    t0 = time.time()
    try:
        p = subprocess.run(
            cmd, cwd=spec_dir, env=e, capture_output=True, text=True, timeout=timeout
        )
    except subprocess.TimeoutExpired as ex:
        shutil.rmtree(meta, ignore_errors=True)
        raise TLCFailure(f"TLC timed out after {timeout}s: {' '.join(cmd)}") from ex
    finally:
        pass
    shutil.rmtree(meta, ignore_errors=True)
    wall = time.time() - t0
    out = p.stdout + "\n" + p.stderr
    violated = _RE_INV.findall(out) + _RE_ACTPROP.findall(out)
    if _RE_TEMPORAL.search(out):
        violated.append("<temporal>")
    if "Deadlock reached" in out:
        violated.append("<deadlock>")
    if "The postcondition has failed" in out or "Postcondition" in out and "violated" in out:
        violated.append("<postcondition>")
    hard_error = False
    for marker in (
        "Parsing or semantic analysis failed",
        "*** Errors:",
        "java.lang.",
        "Error: TLC threw an unexpected exception",
        "The exception was a",
        "Error: Evaluating",
        "was not in the domain",
        "Attempted to",
        "In evaluation, the identifier",
        "TLC encountered an unexpected exception",
        "Unknown operator",
        "Error: The first argument",
    ):
        if marker in out:
            hard_error = True
    m = None
    for m in _RE_STATS.finditer(out):
        pass
    generated = int(m.group(1)) if m else 0
    distinct = int(m.group(2)) if m else 0
    md = _RE_DEPTH.search(out)
    depthv = int(md.group(1)) if md else 0
    cov: dict = {}
    if coverage:
        for mm in _RE_COV.finditer(out):
            name = mm.group(1)
            d, t = int(mm.group(3)), int(mm.group(4))
            pd, pt = cov.get(name, (0, 0))
            cov[name] = (pd + d, pt + t)
    raw = _extract_printed(out)
    finished = "Model checking completed" in out or "Finished in" in out or simulate is not None
    if hard_error and not violated:
        raise TLCFailure(f"TLC error running {' '.join(cmd)}\n{out[-6000:]}")
    if p.returncode != 0 and not violated and not (simulate and p.returncode in (0,)):
        # TLC returns 12/13 for violations; anything else with no violation is a failure
        raise TLCFailure(f"TLC exit {p.returncode} running {' '.join(cmd)}\n{out[-6000:]}")
    if not finished and not violated:
        raise TLCFailure(f"TLC did not finish: {' '.join(cmd)}\n{out[-4000:]}")
    trace = ""
    if violated:
        i = out.find("Error:")
        trace = out[i : i + 20000] if i >= 0 else ""
        if not allow_violation:
            raise TLCFailure(
                f"specification property violated on the model ({violated}) — "
                f"this is a defect of the specification, not of the code\n{trace[:6000]}"
            )
    return TLCResult(
        ok=not violated,
        generated=generated,
        distinct=distinct,
        depth=depthv,
        wall_s=wall,
        printed=[],
        raw_printed=raw,
        violated=violated,
        coverage=cov,
        stdout=out,
        cmd=" ".join(cmd),
        error_trace=trace,
    )


def sany(module: str, spec_dir: Path | None = None) -> None:
    spec_dir = Path(spec_dir or SPEC_DIR)
    p = subprocess.run(
        ["java", "-cp", JAR, "tla2sany.SANY", module + ".tla"],
        cwd=spec_dir,
        capture_output=True,
        text=True,
        timeout=120,
    )
    if p.returncode != 0 or "Semantic errors" in p.stdout or "***Parse Error***" in p.stdout:
        raise TLCFailure(f"SANY failed for {module}:\n{p.stdout[-4000:]}{p.stderr[-2000:]}")
