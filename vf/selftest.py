"""./check selftest [seeded] — demonstrations that the specifications are bound to the code and not vacuous.

1. binding: a recorded trace of the real code is accepted; the same trace with one field corrupted,
   one row dropped or one timestamp moved is rejected at that row (per Trace module);
2. vacuity: invariants of the form "the interesting thing never happens" must be VIOLATED in each slice;
3. seeded (optional, slow): every change under /verif/seeded is detected by the checks its meta.json names.
"""

from __future__ import annotations

import copy
import json
import logging
import re
import subprocess
import sys
import tempfile
from pathlib import Path

from vf import tlc as tlcmod

ROOT = Path(__file__).resolve().parent.parent


def _validate(module: str, traces: list, tmp: Path) -> set:
    f = tmp / f"{module}.json"
    f.write_text(json.dumps(traces))
    r = tlcmod.run_tlc(module, workers=1, env={"TRACE_FILE": str(f)}, timeout=600)
    return {(int(a) - 1, int(b)) for a, b in re.findall(r'<<"REJECT", (\d+), (\d+)>>', r.stdout)}


def binding(tmp: Path) -> list:
    logging.disable(logging.CRITICAL)
    fails = []
    from vf import clientsim, connsim, reconsim, sessionsim

    # Connection
    cfg = dict(noise=False, exp="dev", login=True, K=20000)
    sch = connsim.happy_connect(cfg) + [("ev", "call", "c1", "list", 1), ("ev", "chunk", [{"k": "A", "key": 1}, {"k": "done"}]), ("idle",), ("tick",), ("tick",), ("ev", "chunk", [{"k": "discreq"}]), ("idle",)]
    t = connsim.run_schedule(cfg, sch)
    rows = t["rows"]
    i_conn = next(i for i, r in enumerate(rows) if r["cs"] == "connected")
    variants = {"original": t}
    a = copy.deepcopy(t); a["rows"][i_conn]["cs"] = "hsdone"; variants["corrupt cs"] = a
    b = copy.deepcopy(t); del b["rows"][i_conn]; variants["drop row"] = b
    c = copy.deepcopy(t); c["rows"][-1]["sa"] = [False]; variants["corrupt stop flag"] = c
    d = copy.deepcopy(t)
    j = next(i for i, r in enumerate(d["rows"]) if "PingRequest" in r["w"])
    d["rows"][j]["t"] += 1000; variants["ping one second late"] = d
    names = list(variants)
    rej = _validate("TraceConnection", [variants[n] for n in names], tmp)
    for k, n in enumerate(names):
        got = any(i == k for i, _ in rej)
        if got != (n != "original"):
            fails.append(f"TraceConnection: variant '{n}' {'rejected' if got else 'accepted'}")
    # Client
    sch = [("ev", "connect"), ("idle",), ("ev", "resolve", "ok"), ("idle",), ("ev", "tcp", "ok"), ("idle",), ("ev", "chunk", [clientsim.HELLO_OK]), ("idle",),
           ("ev", "api", "switch_command"), ("idle",), ("ev", "disconnect", True), ("idle",), ("ev", "start"), ("idle",)]
    t = clientsim.run_schedule(dict(noise=False, login=False), sch)
    a = copy.deepcopy(t); a["rows"][-2]["pi"] = 1; variants = {"original": t, "pointer left on the old connection": a}
    names = list(variants)
    rej = _validate("TraceClient", [variants[n] for n in names], tmp)
    for k, n in enumerate(names):
        if any(i == k for i, _ in rej) != (n != "original"):
            fails.append(f"TraceClient: variant '{n}' wrong verdict")
    # Session
    sch = [("ev", "op", "o1", "read", 1, 1), ("idle",), ("ev", "msgs", [{"k": "read", "a": 2, "h": 1, "d": 5}, {"k": "read", "a": 1, "h": 1, "d": 7}]), ("idle",)]
    t = sessionsim.run_schedule(dict(noise=False, login=False), sch)
    a = copy.deepcopy(t)
    for r in a["rows"]:
        for dn in r["dn"]:
            dn[2] = [5]  # completed with the other address's data
    variants = {"original": {"rows": t["rows"]}, "read completed by the foreign response": {"rows": a["rows"]}}
    names = list(variants)
    rej = _validate("TraceSession", [variants[n] for n in names], tmp)
    for k, n in enumerate(names):
        if any(i == k for i, _ in rej) != (n != "original"):
            fails.append(f"TraceSession: variant '{n}' wrong verdict")
    # Reconnect
    sch = [("ev", "start"), ("idle",)] + reconsim.attempt_steps("tcp_err") + [("idle",), ("tick",)] + reconsim.attempt_steps("ok") + [("idle",), ("ev", "stop"), ("idle",)]
    t = reconsim.run_schedule({}, sch)

    def norm(tt):
        return {"rows": [{"e": r["e"], "t": r["t"], "snap": r.get("snap", {"rs": "", "started": False, "tries": 0, "timer": -1, "listen": False})} for r in tt["rows"]]}

    a = copy.deepcopy(t)
    k2 = [i for i, r in enumerate(a["rows"]) if r["e"] == ["attempt"]][1]
    a["rows"][k2]["t"] += 1000  # the retry one second late
    for r in a["rows"][k2 + 1 :]:
        r["t"] = max(r["t"], a["rows"][k2]["t"])
    variants = {"original": norm(t), "retry one second late": norm(a)}
    names = list(variants)
    rej = _validate("TraceReconnect", [variants[n] for n in names], tmp)
    for k, n in enumerate(names):
        if any(i == k for i, _ in rej) != (n != "original"):
            fails.append(f"TraceReconnect: variant '{n}' wrong verdict")
    return fails


VACUITY = [
    ("MC_Connection", "MC_Connection_calls.cfg", "NeverCallOk"), ("MC_Connection", "MC_Connection_calls2.cfg", "NeverCallTimeout"),
    ("MC_Connection", "MC_Connection_keepalive.cfg", "NeverPingDeath"), ("MC_Connection", "MC_Connection_hello.cfg", "NeverConnected"),
    ("MC_Connection", "MC_Connection_dispatch.cfg", "NeverDeliveryToNewSub"),
    ("MC_Client", "MC_Client.cfg", "NeverSecondSession"), ("MC_Reconnect", "MC_Reconnect.cfg", "NeverTwoFailures"),
]


def vacuity(tmp: Path) -> list:
    fails = []
    for module, cfg, inv in VACUITY:
        text = (tlcmod.SPEC_DIR / cfg).read_text()
        text = "\n".join(l for l in text.splitlines() if not l.startswith(("INVARIANT", "PROPERTY"))) + f"\nINVARIANT {inv}\n"
        name = f"_selftest_{inv}.cfg"
        (tlcmod.SPEC_DIR / name).write_text(text)
        try:
            r = tlcmod.run_tlc(module, name, timeout=900)
            if inv not in r.violated:
                fails.append(f"{module}/{cfg}: {inv} is NOT violated - the slice never reaches it")
        finally:
            (tlcmod.SPEC_DIR / name).unlink()
    return fails


def logname() -> list:
    """LogName.tla is bound to util: the unchanged functions agree on every case, two classic slips do not."""
    from aioesphomeapi import util

    from vf import lognamesim

    class _C:
        def tlc(self, module, **kw):
            return tlcmod.run_tlc(module, **kw)

    fails = []
    if lognamesim.run(_C())["mismatches"]:
        fails.append("LogName: the unchanged util functions are rejected")
    orig = util.address_is_local
    util.address_is_local = lambda a: a.endswith(".local")  # forgets the fully qualified form "dev.local."
    try:
        if not lognamesim.run(_C())["mismatches"]:
            fails.append("LogName: address_is_local without removesuffix('.') is accepted")
    finally:
        util.address_is_local = orig
    orig = util.host_is_name_part
    util.host_is_name_part = lambda a: "." not in a  # an IPv6 literal taken for a bare name
    try:
        if not lognamesim.run(_C())["mismatches"]:
            fails.append("LogName: host_is_name_part accepting IPv6 literals is accepted")
    finally:
        util.host_is_name_part = orig
    return fails


def seeded() -> list:
    fails = []
    for d in sorted((ROOT / "seeded").glob("*")):
        meta = json.loads((d / "meta.json").read_text())
        checks = meta.get("detected_by") or [meta["property"]]
        p = subprocess.run(["/verif/tools/try_patch.sh", str(d / "patch.diff"), checks[0]], capture_output=True, text=True)
        if "VIOLATION" not in p.stdout:
            fails.append(f"{d.name}: not detected by {checks[0]}")
        print(d.name, "detected" if "VIOLATION" in p.stdout else "MISSED", flush=True)
    return fails


def main(arg) -> int:
    tmp = Path(tempfile.mkdtemp(prefix="verif-selftest-"))
    fails = []
    if arg == "seeded":
        fails += seeded()
    else:
        fails += binding(tmp)
        print("binding demonstration:", "ok" if not fails else fails, flush=True)
        v = vacuity(tmp)
        print("vacuity guards:", "ok" if not v else v, flush=True)
        fails += v
        ln = logname()
        print("LogName binding:", "ok" if not ln else ln, flush=True)
        fails += ln
    for f in fails:
        print("SELFTEST-FAIL:", f)
    return 2 if fails else 0
