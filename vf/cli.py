"""./check <Cxx> [--tier quick|thorough] [--seed N] | ./check replay <file> | ./check selftest

Exit codes: 0 property held on everything explored (KNOWN-FINDING lines allowed),
1 VIOLATION, 2 the machinery itself failed.
"""

from __future__ import annotations

import argparse
import importlib
import json
import os
import sys
import traceback
from pathlib import Path

HERE = Path(__file__).resolve().parent
sys.path.insert(0, str(HERE.parent))

# the implementation under test: the current working tree of the repository
REPO = os.environ.get("VERIF_REPO", "/repo")
sys.path.insert(0, REPO)

from vf.ctx import Ctx  # noqa: E402
from vf.tlc import TLCFailure  # noqa: E402


def run_property(pid: str, tier: str, seed: int) -> int:
    mod = importlib.import_module(f"vf.props.{pid.lower()}")
    ctx = Ctx(pid, tier, seed, level=getattr(mod, "LEVEL", "model_checking"))
    try:
        mod.run(ctx)
        return ctx.finish()
    except TLCFailure as e:
        print(f"MACHINERY-FAILURE property={pid}: {e}", file=sys.stderr)
        ctx.cleanup()
        return 2
    except Exception as ex:  # noqa: BLE001
        traceback.print_exc()
        # An exception RAISED INSIDE the code under test that escapes through a call the harness makes on the
        # unchanged tree without any exception (every check passes there) is behaviour of the code, not a failure of
        # the machinery: it is reported as a violation.  Anything raised by the harness itself stays exit 2.
        tb = traceback.extract_tb(ex.__traceback__)
        lib = str(Path(REPO).resolve() / "aioesphomeapi")
        # (also when the library is on the stack below the harness code that raised: the harness's device / transport
        # stand-ins are called BY the library and choke on what it handed them - never on the unchanged tree)
        in_lib = [f for f in tb if str(Path(f.filename).resolve()).startswith(lib)]
        if in_lib and not isinstance(ex, (TLCFailure, KeyboardInterrupt)):
            where = f"{Path(in_lib[-1].filename).name}:{in_lib[-1].name}"
            ctx.violation(f"Harness/escaped/{type(ex).__name__}/{where}",
                          {"kind": "escaped", "exception": repr(ex)[:500], "traceback": traceback.format_exc()[-4000:]})
            return ctx.finish()
        print(f"MACHINERY-FAILURE property={pid}", file=sys.stderr)
        ctx.cleanup()
        return 2


def main() -> int:
    ap = argparse.ArgumentParser()
    ap.add_argument("what")
    ap.add_argument("arg", nargs="?")
    ap.add_argument("--tier", default=os.environ.get("VERIF_TIER", "quick"), choices=["quick", "thorough"])
    ap.add_argument("--seed", type=int, default=int(os.environ.get("VERIF_SEED", "0") or 0))
    a = ap.parse_args()
    if a.what == "replay":
        case = json.loads(Path(a.arg).read_text())
        if case.get("kind") == "escaped":
            # an exception of the code under test that escaped into the harness: re-run the check that met it
            print(case.get("traceback", ""))
            return run_property(case["property"], case.get("tier", "quick"), case.get("seed", 0))
        mod = importlib.import_module(f"vf.props.{case['property'].lower()}")
        ctx = Ctx(case["property"], case.get("tier", "quick"), case.get("seed", 0))
        try:
            mod.replay(ctx, case)
        except TLCFailure as e:
            print(f"MACHINERY-FAILURE: {e}", file=sys.stderr)
            return 2
        for v in ctx.violations:
            print(f"VIOLATION property={v['pid']} replay={a.arg}")
            print(f"  signature: {v['sig']}")
        ctx.cleanup()
        return 1 if ctx.violations else 0
    if a.what == "selftest":
        from vf import selftest

        return selftest.main(a.arg)
    if a.what == "all":
        rc = 0
        for i in range(1, 21):
            rc = max(rc, run_property(f"C{i:02d}", a.tier, a.seed))
        return rc
    return run_property(a.what.upper(), a.tier, a.seed)


if __name__ == "__main__":
    sys.exit(main())
