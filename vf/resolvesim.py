"""Replay of Resolver.tla cases into the real async_resolve_host / ZeroconfManager with fakes
for zeroconf's AsyncServiceInfo / AsyncZeroconf and for loop.getaddrinfo (C20)."""

from __future__ import annotations

import asyncio
import itertools
import socket
from ipaddress import ip_address

from . import simloop

HOSTNAME = {"v4lit": "192.0.2.{i}", "v6lit": "2001:db8::{i}f", "v6scoped": "fe80::{i}%3", "v6badscope": "fe80::{i}%eth0",
            "bare": "dev{i}", "dotLocal": "dev{i}.local", "dotLocalDot": "dev{i}.local.", "fqdn": "dev{i}.example.com"}


def addr_text(i: int, src: str, fam: str) -> str:
    n = {"mdns": 1, "os": 2}.get(src, 0)
    return f"10.{i}.{n}.1" if fam == "v4" else f"fd00:{i}:{n}::1"


def mdns_v6(i: int) -> list[str]:
    return [f"fe80::{i}:1%2", addr_text(i, "mdns", "v6")] if i % 2 else [addr_text(i, "mdns", "v6"), f"fe80::{i}:1%2"]


class Env:
    """One resolution case: fakes answer according to the case's outcome matrix and log every look-up."""

    def __init__(self, hosts: list[dict]):
        self.hosts = hosts
        self.names = [HOSTNAME[h["form"]].format(i=i + 1) for i, h in enumerate(hosts)]
        self.lookups: list = []
        self.instances: list = []

    def index_of_name(self, name: str) -> int:
        for i, n in enumerate(self.names):
            if n == name or n.partition(".")[0] == name:
                return i
        raise KeyError(name)


def run_case(hosts: list[dict]) -> dict:
    import aioesphomeapi.host_resolver as hr
    import aioesphomeapi.zeroconf as zmod
    from aioesphomeapi.core import APIConnectionError
    from zeroconf import IPVersion

    env = Env(hosts)

    class FakeAZC:
        def __init__(self, *a, **k):
            self.zeroconf = object()
            self.closed = 0
            self.supplied = False
            env.instances.append(self)

        async def async_close(self):
            self.closed += 1

    class FakeInfo:
        def __init__(self, type_, name, server=None):
            self.host = name.partition(".")[0]
            self.i = env.index_of_name(self.host)

        async def async_request(self, zc, timeout):
            env.lookups.append(["mdns", self.i + 1])
            if env.hosts[self.i]["mdns"] == "error":
                raise OSError("mdns socket error")
            return True

        def ip_addresses_by_version(self, version):
            out = env.hosts[self.i]["mdns"]
            if version == IPVersion.V6Only:
                # a device announces a link-local address (with the interface it was heard on) next to a routable one
                return [ip_address(x) for x in mdns_v6(self.i + 1)] if out in ("v6", "both") else []
            if version == IPVersion.V4Only:
                return [ip_address(addr_text(self.i + 1, "mdns", "v4"))] if out in ("v4", "both") else []
            raise AssertionError(version)

    loop = simloop.new_loop()

    async def getaddrinfo(host, port, *, family=0, type=0, proto=0, flags=0):
        i = env.names.index(host)
        env.lookups.append(["os", i + 1])
        out = env.hosts[i]["os"]
        if out == "error":
            raise socket.gaierror(-2, "Name or service not known")
        v4 = (socket.AF_INET, socket.SOCK_STREAM, socket.IPPROTO_TCP, "", (addr_text(i + 1, "os", "v4"), port))
        v6 = (socket.AF_INET6, socket.SOCK_STREAM, socket.IPPROTO_TCP, "", (addr_text(i + 1, "os", "v6"), port, 0, 0))
        unk = (99, socket.SOCK_STREAM, socket.IPPROTO_TCP, "", ("x", port))
        return {"v4": [v4], "v6": [v6], "mixed": [v4, v6], "unknownFamily": [unk], "empty": []}[out]

    loop.getaddrinfo = getaddrinfo
    orig = (zmod.AsyncZeroconf, hr.AsyncServiceInfo)
    zmod.AsyncZeroconf, hr.AsyncServiceInfo = FakeAZC, FakeInfo
    try:
        mgr = zmod.ZeroconfManager()
        res = {"addrs": [], "err": "none"}
        try:
            addrs = loop.run_coro(hr.async_resolve_host(env.names, 6053, mgr))
            if not addrs:
                res["err"] = "EMPTY_RESULT"
            for a in addrs:
                res["addrs"].append({"address": a.sockaddr.address, "port": a.sockaddr.port, "fam": "v4" if a.family == socket.AF_INET else "v6",
                                     "scope": getattr(a.sockaddr, "scope_id", None)})
        except APIConnectionError:
            res["err"] = "ConnErr"
        except BaseException as e:  # noqa: BLE001
            res["err"] = "RAW:" + type(e).__name__
        res["lookups"] = env.lookups
        res["names"] = env.names
        res["created_open"] = sum(1 for z in env.instances if not z.closed)
        return res
    finally:
        zmod.AsyncZeroconf, hr.AsyncServiceInfo = orig
        loop.shutdown()


def expected_addrs(hosts: list[dict], exp: dict, names: list[str]) -> list[dict]:
    out = []
    for a in exp["addrs"]:
        i, src, fam = a["host"], a["src"], a["fam"]
        if src == "lit":
            form = hosts[i - 1]["form"]
            text = names[i - 1].partition("%")[0]
            scope = {"v6scoped": 3, "v6badscope": 0, "v6lit": 0}.get(form)
            out.append({"address": text, "port": 6053, "fam": fam, "scope": scope})
        elif src == "mdns" and fam == "v6":
            # every IPv6 address of the answer, in the answer's order, before the IPv4 ones; link-local ones keep their scope
            for x in mdns_v6(i):
                out.append({"address": x.partition("%")[0], "port": 6053, "fam": "v6", "scope": int(x.partition("%")[2] or 0)})
        else:
            out.append({"address": addr_text(i, src, fam), "port": 6053, "fam": fam, "scope": 0 if fam == "v6" else None})
    return out


# ---------------------------------------------------------------- ownership
OPS = ("set", "lookup", "listen", "stop")


def run_ownership(seq: tuple) -> list[dict]:
    """Execute a sequence of manager operations on the real ZeroconfManager; one row per operation."""
    import aioesphomeapi.host_resolver as hr
    import aioesphomeapi.zeroconf as zmod

    instances: list = []

    class FakeAZC:
        def __init__(self, *a, **k):
            self.zeroconf = object()
            self.closed = 0
            self.supplied = False
            instances.append(self)

        async def async_close(self):
            self.closed += 1

    class FakeInfo:
        def __init__(self, *a, **k):
            pass

        async def async_request(self, zc, timeout):
            return True

        def ip_addresses_by_version(self, version):
            return []

    loop = simloop.new_loop()
    orig = (zmod.AsyncZeroconf, hr.AsyncServiceInfo)
    zmod.AsyncZeroconf, hr.AsyncServiceInfo = FakeAZC, FakeInfo
    rows = []
    try:
        mgr = zmod.ZeroconfManager()
        for op in seq:
            out = "ok"
            try:
                if op == "set":
                    z = FakeAZC()
                    z.supplied = True
                    mgr.set_instance(z)
                elif op == "lookup":
                    loop.run_coro(hr._async_zeroconf_get_service_info(mgr, "_t.local.", "dev._t.local.", "dev.local.", 1.0))
                elif op == "listen":
                    mgr.get_async_zeroconf()
                elif op == "stop":
                    loop.run_coro(mgr.async_close())
            except RuntimeError:
                out = "error"
                instances.pop()  # the rejected instance was never handed over
            cur = mgr._aiozc
            rows.append({"op": op, "out": out,
                         "inst": "none" if cur is None else ("supplied" if cur.supplied else "created"),
                         "ncreated": sum(1 for z in instances if not z.supplied),
                         "closedCreated": sum(z.closed for z in instances if not z.supplied),
                         "closedSupplied": sum(z.closed for z in instances if z.supplied)})
        return rows
    finally:
        zmod.AsyncZeroconf, hr.AsyncServiceInfo = orig
        loop.shutdown()


def all_op_sequences(maxlen: int):
    for n in range(1, maxlen + 1):
        yield from itertools.product(OPS, repeat=n)
