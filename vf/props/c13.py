"""C13 - message-id registry equals api.proto ids; traffic respects direction."""

import json
import logging
import random
import shutil

from vf import clientsim, protoschema, tlaval
from vf.tlc import SPEC_DIR

LEVEL = "model_checking"
CFG = dict(noise=False, login=True)


def snapshot_tables() -> dict:
    from aioesphomeapi import api_options_pb2, api_pb2, connection, core

    table = [{"id": int(k), "name": v.__name__} for k, v in core.MESSAGE_TYPE_TO_PROTO.items()]
    positional = [c.__name__ for c in connection.MESSAGE_NUMBER_TO_PROTO]
    inverse = [{"id": int(v), "name": k.__name__} for k, v in connection.PROTO_TO_MESSAGE_TYPE.items()]
    src = {0: "SOURCE_BOTH", 1: "SOURCE_SERVER", 2: "SOURCE_CLIENT"}
    descriptors = []
    for name, desc in api_pb2.DESCRIPTOR.message_types_by_name.items():
        opts = desc.GetOptions()
        mid = opts.Extensions[api_options_pb2.id]
        if mid:
            descriptors.append({"id": int(mid), "name": name, "source": src[int(opts.Extensions[api_options_pb2.source])]})
    return {"table": table, "positional": positional, "inverse": inverse, "descriptors": descriptors}


def decoded_by_running_connection(ids: dict) -> list:
    """Feed one empty frame per protocol id to a live connection; which class did it hand to subscribers?"""
    from vf import connsim

    cfg = dict(noise=False, exp="none", login=False, K=20000)
    r = connsim.ConnRun(cfg, 0)
    out = []
    try:
        for it in connsim.happy_connect(cfg):
            if it[0] == "ev":
                getattr(r, "ev_" + it[1])(*it[2:])
            else:
                r.settle()
        from aioesphomeapi.core import MESSAGE_TYPE_TO_PROTO

        cur = {"id": 0}
        r.w.conn.add_message_callback(lambda m: out.append({"id": cur["id"], "name": type(m).__name__}), tuple(MESSAGE_TYPE_TO_PROTO.values()))
        disc = [i for i, n in ids.items() if n == "DisconnectRequest"]
        for i in [i for i in sorted(ids) if i not in disc] + disc:
            cur["id"] = i
            r.w.send_msgs([(i, b"")])
            r.loop.run_until_idle()
    finally:
        r.loop.after_callback = None
        r.w.close()
    return out


def api_calls(ctx, rng) -> list:
    """Every public API method on a connected client: what it writes and what it subscribes to."""
    names = [n for n, _, _ in clientsim.apisurface.surface()[0]]
    sch = [("ev", "connect"), ("idle",), ("ev", "resolve", "ok"), ("idle",), ("ev", "tcp", "ok"), ("idle",),
           ("ev", "chunk", [clientsim.HELLO_OK, clientsim.CONNECT_OK]), ("idle",)]
    for n in names:
        sch += [("ev", "api", n), ("idle",)]
    # let everything pending time out (bluetooth connect then issues a disconnect), answer peer requests
    sch += [("tick",)] * 6 + [("ev", "chunk", [{"k": "pingreq"}, {"k": "timereq"}]), ("idle",)]
    # voice assistant: start answered with a port, with an error, and unsubscribed while the start handler is pending
    for mode in ("port", "none", "block"):
        sch += [("ev", "va_subscribe", mode, True), ("idle",), ("ev", "chunk", [{"k": "VoiceAssistantRequest", "pb": {"start": True}}]), ("idle",),
                ("ev", "va_unsub"), ("idle",)]
    sch += [("ev", "disconnect", False), ("idle",), ("ev", "chunk", [{"k": "discresp"}]), ("idle",)]
    t = clientsim.run_schedule(CFG, sch, seed=ctx.seed)
    calls = []
    cur = None
    for row in t["rows"]:
        if row["c"] in ("UserApi", "UserConnect", "UserDisconnect", "VaSubscribe", "VaUnsub"):
            cur = {"api": row["a"].get("name", row["c"]), "sent": [], "subscribed": []}
            calls.append(cur)
        elif row["c"] == "env" and row["a"].get("e") == "chunk":
            cur = {"api": "reply:" + ",".join(row["a"]["ks"]), "sent": [], "subscribed": []}
            calls.append(cur)
        if cur is None:
            cur = {"api": "(connect)", "sent": [], "subscribed": []}
            calls.append(cur)
        cur["sent"] += row["w"]
        cur["subscribed"] += row["sub"]
    return calls, t


def run(ctx):
    logging.disable(logging.CRITICAL)
    ctx.rule = (
        "reference = id/source options read from the TEXT of api.proto by an independent reader, emitted as ProtoSchema.tla at check time; "
        "TLC evaluates Registry.tla on a snapshot of MESSAGE_TYPE_TO_PROTO / MESSAGE_NUMBER_TO_PROTO / PROTO_TO_MESSAGE_TYPE, the compiled "
        "descriptors' options, the class a live connection decoded each id as, and, per public API call on a connected client (whole surface "
        "by introspection + voice-assistant start/unsubscribe + peer-request replies), the types written and subscribed; "
        "distinct = distinct (statement, message id or API call) pair evaluated"
    )
    schema = protoschema.parse_proto()
    ids = protoschema.ids(schema)
    work = ctx.tmp / "spec"
    shutil.copytree(SPEC_DIR, work)
    protoschema.emit_tla(schema, work / "ProtoSchema.tla")
    obs = snapshot_tables()
    obs["decoded"] = decoded_by_running_connection(ids)
    calls, trace = api_calls(ctx, random.Random(ctx.seed))
    # Bluetooth operations, subscriptions and voice-assistant exchanges in progress (time-outs, follow-up requests,
    # unsubscribe messages): whatever they write / subscribe to is subject to the same direction rule
    from vf import sessionsim

    rng = random.Random(ctx.seed + 13)
    nsess = 150 if ctx.quick else 2000
    for i in range(nsess):
        sch = sessionsim.c16_random(rng, rng.randrange(3, 12)) if i % 2 == 0 else sessionsim.c17_random(rng, rng.randrange(3, 12))
        t = sessionsim.run_schedule(dict(noise=False, login=False), sch, seed=ctx.seed + i)
        sent = sorted({w.split(":")[0] for r in t["rows"] for w in r["w"]})
        sub = sorted({x for r in t["rows"] for x in r.get("sub", [])})
        calls.append({"api": f"session-history-{i}", "sent": sent, "subscribed": sub})
    obs["calls"] = calls
    f = ctx.tmp / "registry-obs.json"
    f.write_text(json.dumps(obs))
    r = ctx.tlc("Registry", workers=1, env={"TRACE_FILE": str(f)}, spec_dir=work, timeout=600)
    for tag, items in tlaval.extract_printed(r.stdout, "MISMATCH"):
        ctx.violation(f"Registry/{tag}", {"kind": "registry", "tag": tag, "items": items[:40]})
    n_stmt = 8
    ctx.evaluations += n_stmt * len(ids) + 2 * len(calls)
    ctx.distinct |= {("id", i) for i in ids} | {("call", c["api"]) for c in calls}
    ctx.exhaustive = True
    ctx.extra["message_ids"] = len(ids)
    ctx.extra["api_calls_observed"] = len(calls)
    ctx.extra["types_sent"] = sorted({n for c in calls for n in c["sent"]})
    ctx.extra["types_subscribed"] = sorted({n for c in calls for n in c["subscribed"]})
    if trace["gaps"]:
        ctx.undecided.append(f"API methods whose arguments could not be synthesised: {trace['gaps']}")
    ctx.sample({"call": calls[len(calls) // 3]})
    ctx.sample({"table_head": obs["table"][:3], "descriptor_head": obs["descriptors"][:3]})
    ctx.assumptions += [
        "the .proto reader (vf/protoschema.py) handles the subset of the proto language api.proto uses",
        "direction is decided for the API calls the sweep makes with synthesised arguments and the scripted follow-ups; every other check's device decoder also sees only client writes",
    ]
    # positional lookup in action: every protocol id and ids outside the table (also ones that equal a defined id
    # modulo 2^8 / 2^16), both framings, on the real connection with a wildcard subscriber - the class each id is
    # decoded as comes from the text of api.proto; traces validated by TLC (TraceConnection.tla)
    from vf import connsim
    from vf.props import conn_common

    conn_common.dedicated(ctx, "c13sweep", [], lambda ctx, rng: {"id_sweep": connsim.c12_sweep_family(ctx.quick, rng)})
    ctx.notes.append("table equalities are evaluated by TLC but add nothing a diff would not (DESIGN 8); their value is that the same tables drive the dispatch checks")


def replay(ctx, case):
    if case.get("kind") == "conn-trace":
        from vf.props import conn_common

        conn_common.replay_case(ctx, case)
        return
    run(ctx)
