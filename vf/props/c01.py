"""C01 — plaintext stream reassembly is lossless and independent of segmentation.

1. TLC checks, exhaustively on bounded instances, that the transcription of the
   parser loop (PlainHelper.tla) refines the abstract meaning "exactly the frames
   complete within the received prefix" for every segmentation.
2. spec -> code: one behaviour per transition of that model (edge cover) is
   replayed into the real APIPlaintextFrameHelper; after every chunk the
   delivered (type, payload) sequence and the error/close state are compared.
3. code -> spec: long random streams (40 frames, payloads to 70 000 bytes,
   adversarial cuts) are run through the real helper and the recorded traces are
   validated by TLC against TracePlain.tla.
"""

from __future__ import annotations

import random

from vf import devices, simloop, tracecheck
from vf.tlc import parse_tagged

KINDS = {"bytes": bytes, "bytearray": bytearray, "memoryview": memoryview}


def feed(helper, kind: str, chunk: bytes) -> None:
    """Hand one received chunk to the helper the way a buffer-recycling transport does: mutable kinds live in
    a buffer that is overwritten as soon as data_received has returned - whatever the helper keeps (the tail of
    an incomplete frame, payloads it has delivered) must not alias it."""
    if kind == "bytes":
        helper.data_received(chunk)
        return
    buf = bytearray(chunk)
    try:
        helper.data_received(buf if kind == "bytearray" else memoryview(buf))
    finally:
        buf[:] = b"\xa5" * len(buf)


def _err_class(conn, helper):
    from aioesphomeapi.core import ProtocolAPIError, RequiresEncryptionAPIError

    if not conn.errors:
        return "none"
    e = conn.errors[0]
    if isinstance(e, RequiresEncryptionAPIError):
        return "encryption"
    if isinstance(e, ProtocolAPIError):
        return "protocol"
    return "other:" + type(e).__name__


def make_helper():
    from aioesphomeapi._frame_helper.plain_text import APIPlaintextFrameHelper

    conn = devices.RecordingConnection()
    helper = APIPlaintextFrameHelper(connection=conn, client_info="verif", log_name="verif")
    tr = devices.RecordingTransport()
    helper.connection_made(tr)
    return conn, helper, tr


def adversarial_payload(rng: random.Random, n: int) -> bytes:
    """Payload bytes that look like framing (0x00, 0x01, continuation bits)."""
    mode = rng.randrange(4)
    if mode == 0:
        return bytes(rng.choice((0, 1, 0x80, 0xFF, 0x7F)) for _ in range(n)) if n < 4096 else bytes([0x80]) * n
    if mode == 1:
        return b"\x00" * n
    if mode == 2 and n >= 3:
        inner = devices.plain_frame(rng.randrange(1, 200), b"x" * rng.randrange(0, 3))
        return (inner * (n // len(inner) + 1))[:n]
    return rng.randbytes(n)


def replay_behaviour(frames, hist, rng):
    """Run one TLC behaviour on the real helper.  Returns None or a mismatch dict."""
    conn, helper, tr = make_helper()
    sent = []
    stream = b""
    for f in frames:
        if f["plen"] < 0:
            stream += bytes([f["type"]])
        else:
            payload = adversarial_payload(rng, f["plen"])
            sent.append((f["type"], payload))
            stream += devices.plain_frame(f["type"], payload)
    pos = 0
    for i, h in enumerate(hist):
        chunk = stream[pos : pos + h["n"]]
        pos += h["n"]
        try:
            feed(helper, h["kind"], chunk)
        except Exception as ex:  # noqa: BLE001
            return {"step": i, "field": "exception", "observed": repr(ex)}
        got = conn.packets
        if len(got) != h["nd"]:
            return {"step": i, "field": "delivered_count", "expected": h["nd"], "observed": len(got)}
        if got != sent[: h["nd"]]:
            return {"step": i, "field": "delivered_content", "expected": str(sent[: h["nd"]])[:300], "observed": str(got)[:300]}
        ec = _err_class(conn, helper)
        if ec != h["err"]:
            return {"step": i, "field": "error_class", "expected": h["err"], "observed": ec}
        if (h["err"] != "none") != tr.closed:
            return {"step": i, "field": "transport_closed", "expected": h["err"] != "none", "observed": tr.closed}
        if h["err"] != "none":
            if helper.ready_future.done() and helper.ready_future.exception() is not None:
                return {"step": i, "field": "ready_future", "observed": "exception although already ready"}
    return None


def record_trace(rng: random.Random, big: bool):
    """One random execution of the real helper -> trace dict for TracePlain."""
    nframes = rng.randrange(1, 41 if big else 12)
    frames = []
    sent = []
    stream = b""
    bounds = []  # interesting cut positions
    for _ in range(nframes):
        t = rng.choice((1, 2, 5, 127, 128, 129, 300, 16383, 16384, 65535, 65536, 2097151, 2097152, 268435455, rng.randrange(1, 2**28)))
        r = rng.random()
        if r < 0.45:
            plen = rng.randrange(0, 6)
        elif r < 0.8:
            plen = rng.choice((126, 127, 128, 129, 255, 256, 1000, 16383, 16384, 16385))
        elif big and r < 0.9:
            plen = rng.randrange(60000, 70001)
        else:
            plen = rng.randrange(0, 3000)
        payload = adversarial_payload(rng, plen)
        hdr = devices.plain_header(t, plen)
        start = len(stream)
        stream += hdr + payload
        for k in range(len(hdr) + 2):
            bounds.append(start + k)
        bounds.append(len(stream) - 1)
        frames.append({"type": t, "plen": plen, "hdr": list(hdr)})
        sent.append((t, payload))
    if rng.random() < 0.25:
        b = rng.choice((1, 1, 2, 3, 0x7F))
        frames.append({"type": b, "plen": -1, "hdr": []})
        stream += bytes([b])
        stream += rng.randbytes(rng.randrange(0, 8))  # garbage after the stray byte
    # segmentation
    cuts = set()
    mode = rng.randrange(5)
    if mode == 4:
        # chunks that begin INSIDE a frame and look like one whole frame themselves (0x00, varint length,
        # varint type, exactly that many bytes): a parser that trusts the shape of a chunk is fooled by them
        frame_starts = set()
        pos = 0
        for f in frames:
            frame_starts.add(pos)
            pos += len(f["hdr"]) + max(f["plen"], 0)
        cands = []
        for p0 in range(1, len(stream) - 3):
            if stream[p0] != 0 or p0 in frame_starts:
                continue
            r1 = devices.dec_varint(stream, p0 + 1)
            if r1 is None or r1[1] - p0 > 6:
                continue
            r2 = devices.dec_varint(stream, r1[1])
            if r2 is None or r2[1] + r1[0] > len(stream):
                continue
            cands.append((p0, r2[1] + r1[0]))
            if len(cands) > 400:
                break
        rng.shuffle(cands)
        end = 0
        for a, b in sorted(cands[:6]):
            if a >= end:
                cuts |= {a, b}
                end = b
        cuts.discard(len(stream))
        if not cuts:
            mode = 1
    if mode == 4:
        pass
    elif mode == 0:  # byte by byte for small streams, else bounded count
        if len(stream) < 400:
            cuts = set(range(1, len(stream)))
        else:
            cuts = set(rng.sample(range(1, len(stream)), min(200, len(stream) - 1)))
    elif mode == 1:  # cuts at adversarial positions (inside varints, at frame ends)
        cand = [b for b in bounds if 0 < b < len(stream)]
        cuts = set(rng.sample(cand, rng.randrange(0, min(len(cand), 60) + 1))) if cand else set()
    elif mode == 2:  # few big chunks
        if len(stream) > 1:
            cuts = set(rng.sample(range(1, len(stream)), min(rng.randrange(0, 5), len(stream) - 1)))
    else:
        if len(stream) > 1:
            cuts = set(rng.sample(range(1, len(stream)), min(rng.randrange(0, 80), len(stream) - 1)))
    edges = [0] + sorted(cuts) + [len(stream)]
    conn, helper, tr = make_helper()
    # A consumer that fails on some packets (the exception escapes data_received): the packet it failed on counts as
    # handed over - once; the complete frames behind it are handed over by the following calls, nothing twice,
    # nothing lost.  Only on streams without a stray byte.
    raise_at: list[int] = []
    if frames and frames[-1]["plen"] >= 0 and rng.random() < 0.3:
        raise_at = sorted(rng.sample(range(1, len(sent) + 1), min(len(sent), rng.randrange(1, 6))))
        conn.raise_at = set(raise_at)
    events = []
    pieces = [stream[a:b] for a, b in zip(edges, edges[1:])]
    if raise_at:
        pieces += [b""] * (len(raise_at) + 1)  # calls without new bytes: they hand over what a failure left behind
    for piece in pieces:
        kind = rng.choice(list(KINDS))
        exc = None
        try:
            feed(helper, kind, piece)
        except devices.ConsumerFailed:
            pass
        except Exception as ex:  # noqa: BLE001
            exc = repr(ex)
        nd = len(conn.packets)
        events.append(
            {
                "n": len(piece),
                "nd": nd,
                "exact": exc is None and conn.packets == sent[:nd],
                "err": _err_class(conn, helper),
                "closed": tr.closed,
            }
        )
        if tr.closed:
            break  # a closed transport receives nothing more
    return {"frames": frames, "events": events, "raise": raise_at}, stream, edges


def run(ctx):
    loop = simloop.new_loop()
    try:
        _run(ctx)
    finally:
        loop.shutdown()


def _run(ctx):
    rng = random.Random(ctx.seed)
    ctx.rule = (
        "TLC: all frame sequences over the alphabet x all segmentations within the byte bound (exhaustive); "
        "replay: one behaviour per model transition (frames, received prefix, next chunk, chunk kind); "
        "traces: random streams x random/adversarial segmentations; distinct = distinct (frames, cuts) case"
    )
    # 1. model checking
    ctx.tlc("MC_PlainHelper_small", "MC_PlainHelper_small.cfg", coverage=True)
    if not ctx.quick:
        ctx.tlc("MC_PlainHelper_small", "MC_PlainHelper_big.cfg")
    # 2. generation + replay
    r = ctx.tlc("MC_PlainHelper_small", "MC_PlainHelper_gen.cfg", workers=1)
    edges = parse_tagged(r.raw_printed, "EDGE")
    if len(edges) < 1000:
        raise RuntimeError(f"edge cover too small: {len(edges)}")
    for e in edges:
        mm = replay_behaviour(e["f"], e["h"], rng)
        ctx.replayed += 1
        ctx.case(("edge", str(e["f"]), tuple(h["n"] for h in e["h"]), e["h"][-1]["kind"]))
        if mm is not None:
            tag = "C04" if mm["field"] in ("error_class", "transport_closed", "ready_future") else "C01"
            if tag == ctx.pid:
                ctx.violation(f"PlainHelper/Receive/{mm['field']}", {"kind": "edge", "frames": e["f"], "hist": e["h"], "mismatch": mm})
    ctx.sample({"replayed_behaviour": edges[len(edges) // 2]})
    # 3. recorded traces validated by TLC
    ntr = 400 if ctx.quick else 6000
    traces = []
    meta = []
    for i in range(ntr):
        tr, stream, cuts = record_trace(rng, big=(i % 4 == 0))
        traces.append(tr)
        meta.append((len(stream), len(cuts) - 1))
        ctx.case(("trace", i, len(stream), len(cuts)))
    rej = tracecheck.validate(ctx, "TracePlain", traces, batch=1500)
    for idx, line in rej:
        ev = traces[idx]["events"][line - 1] if line - 1 < len(traces[idx]["events"]) else None
        field = "delivery"
        ctx.violation(
            f"TracePlain/Step/{field}",
            {"kind": "trace", "trace": {"frames": [{k: v for k, v in f.items() if k != 'hdr'} for f in traces[idx]["frames"]], "events": traces[idx]["events"][: line + 1]}, "first_unexplained_line": line, "event": ev},
        )
    ctx.sample({"validated_trace": {"frames": len(traces[0]["frames"]), "stream_bytes": meta[0][0], "chunks": meta[0][1], "first_events": traces[0]["events"][:4]}})
    ctx.extra["max_stream_bytes"] = max(m[0] for m in meta)
    ctx.extra["max_chunks"] = max(m[1] for m in meta)
    ctx.assumptions += [
        "payload bytes are opaque to the specification; the harness materialises them (random and framing-like bytes) and decides byte-identity",
        "chunk types: bytes, bytearray, memoryview",
    ]


def replay(ctx, case):
    loop = simloop.new_loop()
    try:
        if case["kind"] == "edge":
            mm = replay_behaviour(case["frames"], case["hist"], random.Random(case.get("seed", 0)))
            if mm is not None:
                ctx.violation(case["sig"], {"mismatch": mm})
        else:
            print("trace cases are re-validated by running the check with the recorded seed")
    finally:
        loop.shutdown()
