"""C04 — encrypted transport fails closed with a specific error; no forged delivery."""

import base64
import random

from vf import connsim, noise_h
from vf.props import c01, conn_common, noise_common
from vf.tlc import parse_tagged
from vf import simloop


def run(ctx):
    ctx.rule = (
        "TLC: every single deviation (marker/length/body/tag flip, dup, swap, drop, other key, handshake error frames, unknown "
        "selector, empty hello, name mismatch, plaintext device) x every frame index x cut sets; replay: one behaviour per "
        "model transition with the deviation materialised on a live session; traces: random sessions with a random deviation; "
        "key strings: class representatives and random base64 of every length 0..48; plaintext helper against stray/Noise bytes; "
        "distinct = distinct (deviation, index, cuts) or key string"
    )
    noise_common.run_noise(ctx, "deviation")
    rng = random.Random(ctx.seed + 40)
    # key strings (last sentence of the statement)
    loop_keys = []
    for cls, mk in noise_h.KEY_CLASSES.items():
        for _ in range(3):
            loop_keys.append((cls, mk(rng)))
    for n in range(0, 49):
        loop_keys.append(("ok32" if n == 32 else f"len{n}", base64.b64encode(rng.randbytes(n)).decode()))
    for cls, key in loop_keys:
        got, written = noise_h.try_key(key)
        exp = "ok" if cls == "ok32" else "invalidkey"
        ctx.case(("key", cls, key))
        if got != exp or (exp != "ok" and written):
            ctx.violation(f"NoiseHelper/Init/key/{cls}", {"kind": "key", "key": key, "expected": exp, "observed": got, "bytes_written": written})
    ctx.sample({"key_string": loop_keys[5]})
    # plaintext helper: stray byte / Noise device (edge cover of PlainHelper, error fields)
    loop = simloop.new_loop()
    try:
        r = ctx.tlc("MC_PlainHelper_small", "MC_PlainHelper_gen.cfg", workers=1)
        edges = [e for e in parse_tagged(r.raw_printed, "EDGE") if e["f"][-1]["plen"] < 0]
        for e in edges:
            mm = c01.replay_behaviour(e["f"], e["h"], rng)
            ctx.replayed += 1
            ctx.case(("plain-edge", str(e["f"]), tuple(h["n"] for h in e["h"])))
            if mm is not None:
                ctx.violation(f"PlainHelper/Receive/{mm['field']}", {"kind": "plain-edge", "frames": e["f"], "hist": e["h"], "mismatch": mm})
        # a real Noise device answering a plaintext client: 0x01 first => requires encryption
        for _ in range(20):
            conn, helper, tr = c01.make_helper()
            from vf import devices

            d = devices.NoiseDevice(rng.randbytes(32), "dev")
            stream = d.hello_frame() + rng.randbytes(rng.randrange(0, 60))
            cut = rng.randrange(1, len(stream) + 1)
            helper.data_received(stream[:cut])
            ctx.case(("plain-vs-noise", cut))
            if c01._err_class(conn, helper) != "encryption" or not tr.closed or conn.packets:
                ctx.violation("PlainHelper/Receive/noise_device", {"kind": "plain-vs-noise", "observed": c01._err_class(conn, helper), "closed": tr.closed, "packets": len(conn.packets)})
    finally:
        loop.shutdown()


    # connection level: an encrypted session whose device announces / answers with another name (in the server hello,
    # in the encrypted HelloResponse, or in both) must end closed with the bad-name error and deliver nothing
    def build(ctx, rng):
        fam = [(c, s) for c, s in connsim.c06_family(True, rng) if c["noise"] and c["exp"] == "dev"]
        return {"noise_names": fam}

    conn_common.dedicated(ctx, "c04conn", [], build)
    # client level, Noise: the expectation in force when the session is made decides (set / changed / cleared on the client
    # between the phases and between sessions) - Client.tla NameBad
    from vf import clientsim
    from vf.props import c19

    res = c19.run_family(ctx, "client_names", clientsim.names_family([dict(noise=True, login=False)]))
    ctx.evaluations += res["n"]
    ctx.distinct |= {("client_names", i) for i in range(res["n"])}
    for f in res["findings"]:
        if set(f["fields"]) & {"pi", "gate"} or set(f["fields"]) <= {"sa", "ns"}:
            # the client's pointer / gate discipline is C19's business, its stop callback C07's: noted only
            ctx.notes.append(f"client-level mismatch outside this property ({f['fields']}) seen in family client_names")
            continue
        ctx.violation(f"Client/client_names/{f['cause']}/{'+'.join(f['fields'])}", {"kind": "client-trace", "family": "client_names", **f})
    ctx.notes[:] = sorted(set(ctx.notes))[:20]
    ctx.rule += "; connection level: name announced in the server hello x name in the encrypted HelloResponse x expected name, on the real APIConnection, validated by TLC"


def replay(ctx, case):
    if case.get("kind") == "client-trace":
        from vf.props import c19

        c19.replay(ctx, case)
        return
    if case.get("kind") == "conn-trace":
        conn_common.replay_case(ctx, case)
        return
    if case["kind"] in ("edge", "trace"):
        noise_common.replay_case(ctx, case)
    elif case["kind"] == "key":
        got, written = noise_h.try_key(case["key"])
        if got != case["expected"]:
            ctx.violation(case["sig"], {"observed": got})
    elif case["kind"] == "plain-edge":
        loop = simloop.new_loop()
        try:
            mm = c01.replay_behaviour(case["frames"], case["hist"], random.Random(0))
            if mm is not None:
                ctx.violation(case["sig"], {"mismatch": mm})
        finally:
            loop.shutdown()
