"""C02 — everything the client writes conforms to the documented wire format.

TLC (Writer.tla over Wire.tla) enumerates packets/batches/write sequences and
computes the expected header bytes and nonces; every behaviour is replayed into
the real helpers' write_packets; long sessions of APIConnection.send_messages
over every registered message class are recorded and validated by TLC
(TraceWriter.tla).  Decoding on the device side is the independent codec of
vf.devices (explicit-nonce AEAD for Noise).
"""

from __future__ import annotations

import logging
import random

from vf import devices, noise_h, protoschema, simloop, simnet, tracecheck
from vf.tlc import parse_tagged
from vf.world import World, msg_id, pb


def payload_of(rng, plen):
    return rng.randbytes(plen)


def replay_behaviour(rng, mode, hist):
    loop = simloop.new_loop()
    try:
        if mode == "plain":
            from aioesphomeapi._frame_helper.plain_text import APIPlaintextFrameHelper

            conn = devices.RecordingConnection()
            helper = APIPlaintextFrameHelper(connection=conn, client_info="v", log_name="v")
            tr = simnet.SimTransport(loop, simnet.SimSocket(), helper)
            loop.run_until_idle()
            s = None
        else:
            s = noise_h.NoiseSession(rng, "dev", "none", loop)
            s.tr.feed(s.stream(_honest2(), "none"))
            helper, tr = s.helper, s.tr
            if s.observe()["ready"] != "ok":
                return {"step": -1, "field": "handshake", "observed": s.observe()}
        for i, h in enumerate(hist):
            batch = [(p["type"], payload_of(rng, p["plen"])) for p in h["batch"]]
            before = len(tr.writes)
            calls = tr.write_calls
            helper.write_packets(batch, False)
            if tr.write_calls != calls + 1:
                return {"step": i, "field": "single_write", "expected": 1, "observed": tr.write_calls - calls}
            data = b"".join(tr.writes[before:])
            if mode == "plain":
                exp = b"".join(bytes(e["hdr"]) + p[1] for e, p in zip(h["enc"], batch))
                if data != exp:
                    return {"step": i, "field": "bytes", "expected": exp[:40].hex(), "observed": data[:40].hex()}
            else:
                pos = 0
                for e, p in zip(h["enc"], batch):
                    outer = bytes(e["outer"])
                    if data[pos : pos + 3] != outer:
                        return {"step": i, "field": "outer_header", "expected": outer.hex(), "observed": data[pos : pos + 3].hex()}
                    clen = (outer[1] << 8) | outer[2]
                    body = data[pos + 3 : pos + 3 + clen]
                    pos += 3 + clen
                    from cryptography.hazmat.primitives.ciphers.aead import ChaCha20Poly1305

                    try:
                        inner = ChaCha20Poly1305(s.device.recv_key).decrypt(devices.nonce_bytes(e["nonce"]), body, None)
                    except Exception:  # noqa: BLE001
                        return {"step": i, "field": "nonce_or_key", "expected": e["nonce"], "observed": "frame does not open"}
                    if inner != bytes(e["inner"]) + p[1]:
                        return {"step": i, "field": "inner", "expected": bytes(e["inner"]).hex(), "observed": inner[:4].hex()}
                if pos != len(data):
                    return {"step": i, "field": "trailing_bytes", "observed": len(data) - pos}
        return None
    finally:
        loop.shutdown()


def _honest2():
    from vf.props.noise_common import honest_frames

    return honest_frames("dev", [])


_SAMPLE_FIELDS = {}


def sample_message(rng, name):
    """A populated instance of message class `name` (client- or both-originated)."""
    from aioesphomeapi import api_pb2

    m = getattr(api_pb2, name)()
    for f in m.DESCRIPTOR.fields:
        if rng.random() < 0.4:
            continue
        if f.is_repeated or f.type == f.TYPE_MESSAGE:
            continue
        if f.type == f.TYPE_STRING:
            setattr(m, f.name, rng.choice(("", "x", "ünï", "a" * rng.choice((127, 128, 300)))))
        elif f.type == f.TYPE_BYTES:
            setattr(m, f.name, rng.randbytes(rng.choice((0, 1, 127, 128, 2000))))
        elif f.type == f.TYPE_BOOL:
            setattr(m, f.name, rng.random() < 0.5)
        elif f.type in (f.TYPE_FLOAT, f.TYPE_DOUBLE):
            setattr(m, f.name, rng.choice((0.0, 0.5, -1.25, 100.0)))
        elif f.type == f.TYPE_ENUM:
            setattr(m, f.name, rng.choice([v.number for v in f.enum_type.values]))
        elif f.type in (f.TYPE_UINT32, f.TYPE_FIXED32, f.TYPE_UINT64, f.TYPE_FIXED64):
            setattr(m, f.name, rng.choice((0, 1, 127, 128, 2**32 - 1)))
        elif f.type in (f.TYPE_INT32, f.TYPE_SINT32, f.TYPE_SFIXED32, f.TYPE_INT64, f.TYPE_SINT64):
            setattr(m, f.name, rng.choice((0, 1, -1, 2**31 - 1)))
    return m


def record_session(rng, noise: bool, names: list[str], nwrites: int):
    """A connected APIConnection sending many batches -> trace for TraceWriter."""
    w = World(seed=rng.randrange(1 << 30), noise=noise, keepalive=1e6)
    try:
        L = w.loop
        w.spawn("start", w.conn.start_connection())
        L.run_until_idle()
        w.resolve_ok()
        L.run_until_idle()
        w.tcp_ok()
        L.run_until_idle()
        w.spawn("finish", w.conn.finish_connection(login=False))
        L.run_until_idle()
        if noise:
            w.chunk(w.codec.noise_hello())
            w.chunk(w.codec.noise_handshake())
            L.run_until_idle()
        w.send_msgs([(msg_id("HelloResponse"), pb("HelloResponse", api_version_major=1, api_version_minor=10, name="dev").SerializeToString())])
        L.run_until_idle()
        w.poll_ops()
        if w.ops["finish"].outcome != "ok":
            raise RuntimeError(f"harness: could not connect: {w.ops['finish'].outcome} {w.ops['finish'].exc!r}")
        tr = w.tr
        codec = w.codec
        events = []
        tx0 = codec.nd.rx_nonce if noise else 0  # nonces already used by the connect phase
        connect_phase_ok = not codec.format_errors and (not noise or tx0 == 1)  # hello was nonce 0
        schema, byid, byname = __import__("vf.world", fromlist=["schema"]).schema()
        paused = False
        for _ in range(nwrites):
            if rng.random() < 0.12:
                # the transport signals flow control (its buffer crossed a water mark); the loop runs on
                calls = tr.write_calls
                paused = not paused
                (tr.protocol.pause_writing if paused else tr.protocol.resume_writing)()
                L.run_until_idle()
                events.append({"sig": "pause" if paused else "resume", "pk": [], "writes": tr.write_calls - calls, "exact": True})
            if rng.random() < 0.06:
                # a batch with an element that is no protocol message: refused as a whole - nothing written, no nonce used
                bad = [sample_message(rng, rng.choice(names)) for _ in range(rng.choice((1, 2, 3)))] + [object()]
                if rng.random() < 0.5:
                    bad.insert(0, bad.pop())
                calls = tr.write_calls
                raw_before = len(tr.writes)
                raised = False
                try:
                    w.conn.send_messages(tuple(bad))
                except Exception:  # noqa: BLE001
                    raised = True
                events.append({"sig": "reject", "pk": [], "writes": tr.write_calls - calls, "exact": raised and len(tr.writes) == raw_before})
            batch = [sample_message(rng, rng.choice(names)) for _ in range(rng.choice((1, 1, 1, 2, 3, 5)))]
            nbefore = len(codec.client_msgs)
            raw_before = len(tr.writes)
            calls = tr.write_calls
            nonce0 = codec.nd.rx_nonce if noise else 0
            errs_before = len(codec.format_errors)
            w.conn.send_messages(tuple(batch))
            got = codec.client_msgs[nbefore:]
            data = b"".join(tr.writes[raw_before:])
            exact = len(got) == len(batch) and not codec.format_errors[errs_before:]
            pk = []
            pos = 0
            for i, m in enumerate(batch):
                exp_payload = m.SerializeToString()
                exp_type = byname[type(m).__name__]  # id from the .proto text
                if i < len(got):
                    t, payload = got[i]
                    if payload != exp_payload or t != exp_type:
                        exact = False
                else:
                    t, payload = -1, b""
                rec = {"type": exp_type, "plen": len(exp_payload)}
                if not noise:
                    hl = len(devices.plain_header(t, len(payload))) if t >= 0 else 0
                    rec["hdr"] = list(data[pos : pos + hl])
                    pos += hl + len(payload)
                else:
                    rec["outer"] = list(data[pos : pos + 3])
                    clen = (data[pos + 1] << 8 | data[pos + 2]) if pos + 3 <= len(data) else 0
                    body = data[pos + 3 : pos + 3 + clen]
                    pos += 3 + clen
                    # which nonce opens it (explicit-nonce AEAD)?
                    from cryptography.hazmat.primitives.ciphers.aead import ChaCha20Poly1305

                    found, inner = -1, b""
                    for n in range(max(0, nonce0 - 2), nonce0 + len(batch) + 3):
                        try:
                            inner = ChaCha20Poly1305(codec.nd.recv_key).decrypt(devices.nonce_bytes(n), body, None)
                            found = n
                            break
                        except Exception:  # noqa: BLE001
                            continue
                    rec["nonce"] = found
                    rec["inner"] = list(inner[:4])
                pk.append(rec)
            if pos != len(data):
                exact = False
            events.append({"sig": "", "pk": pk, "writes": tr.write_calls - calls, "exact": exact and connect_phase_ok})
        return {"mode": "noise" if noise else "plain", "tx0": tx0, "events": events}
    finally:
        w.close()


def record_raw_plain(rng):
    """A long sequence of write_packets calls on one plaintext helper over few types and lengths that differ by
    multiples of 2^16 (a header cache keyed on a truncated length is fooled by them) -> trace for TraceWriter."""
    from aioesphomeapi._frame_helper.plain_text import APIPlaintextFrameHelper

    loop = simloop.new_loop()
    try:
        conn = devices.RecordingConnection()
        helper = APIPlaintextFrameHelper(connection=conn, client_info="v", log_name="v")
        tr = simnet.SimTransport(loop, simnet.SimSocket(), helper)
        loop.run_until_idle()
        types = [1, 2, 127, 128, 300]
        base = [0, 1, 12, 127, 128, 255, 256]
        lens = base + [b + 65536 for b in base] + [b + 131072 for b in (0, 12)] + [65535, 65536 * 2 - 1]
        events = []
        for _ in range(120):
            batch = [(rng.choice(types), rng.choice(lens)) for _ in range(rng.choice((1, 1, 2)))]
            payloads = [rng.randbytes(n) for _, n in batch]
            before, calls = len(tr.writes), tr.write_calls
            helper.write_packets([(t, p) for (t, _), p in zip(batch, payloads)], False)
            data = b"".join(tr.writes[before:])
            pk, pos, exact = [], 0, True
            for (t, n), p in zip(batch, payloads):
                hl = len(devices.plain_header(t, n))
                pk.append({"type": t, "plen": n, "hdr": list(data[pos : pos + hl])})
                exact = exact and data[pos + hl : pos + hl + n] == p
                pos += hl + n
            events.append({"sig": "", "pk": pk, "writes": tr.write_calls - calls, "exact": exact and pos == len(data)})
        return {"mode": "plain", "tx0": 0, "events": events}
    finally:
        loop.shutdown()


def run(ctx):
    logging.disable(logging.CRITICAL)
    rng = random.Random(ctx.seed + 2)
    ctx.rule = (
        "TLC: packets over boundary types/lengths x batches x write sequences, both framings (exhaustive in the bounds); "
        "replay: one behaviour per model transition into write_packets; traces: sessions of APIConnection.send_messages with "
        "random populated instances of every client/both-originated message class, 100-400 batches per session; "
        "distinct = distinct (mode, batch sequence) or recorded session"
    )
    ctx.tlc("MC_Writer", "MC_Writer.cfg", workers=8, coverage=True)
    r = ctx.tlc("MC_Writer", "MC_Writer_gen.cfg", workers=1)
    edges = parse_tagged(r.raw_printed, "EDGE")
    if len(edges) < 1000:
        raise RuntimeError("edge cover too small")
    if ctx.quick:
        edges = rng.sample(edges, 2500)
    for e in edges:
        mm = replay_behaviour(rng, e["mode"], e["h"])
        ctx.replayed += 1
        ctx.case(("edge", e["mode"], str([h["batch"] for h in e["h"]])))
        if mm is not None:
            ctx.violation(f"Writer/Write/{e['mode']}/{mm['field']}", {"kind": "edge", "mode": e["mode"], "hist": e["h"], "mismatch": mm})
    ctx.sample({"replayed_behaviour": {"mode": edges[0]["mode"], "batches": [h["batch"] for h in edges[0]["h"]], "expected_first": edges[0]["h"][0]["enc"]}})
    # connection level: every message class the client may send, long sessions
    schema = protoschema.parse_proto()
    names = sorted(m["name"] for m in schema["messages"].values() if m["id"] and m["source"] in ("SOURCE_CLIENT", "SOURCE_BOTH"))
    ctx.extra["message_classes_sent"] = len(names)
    nsess = 6 if ctx.quick else 60
    traces = []
    for i in range(nsess):
        traces.append(record_session(rng, noise=(i % 2 == 1), names=names, nwrites=rng.randrange(100, 401)))
        ctx.case(("session", i, traces[-1]["mode"], len(traces[-1]["events"])))
    for i in range(4 if ctx.quick else 40):
        traces.append(record_raw_plain(rng))
        ctx.case(("raw-plain-session", i))
    rej = tracecheck.validate(ctx, "TraceWriter", traces, batch=20)
    for idx, line in rej:
        t = traces[idx]
        ctx.violation(f"TraceWriter/Write/{t['mode']}", {"kind": "trace", "mode": t["mode"], "event": t["events"][line - 1] if line - 1 < len(t["events"]) else None, "first_unexplained_line": line})
    ctx.sample({"validated_session": {"mode": traces[1]["mode"], "batches": len(traces[1]["events"]), "first_event": traces[1]["events"][0]}})
    ctx.assumptions += [
        "Noise payloads above 65 515 bytes are outside the domain (not representable in the documented 16-bit length)",
        "protobuf serialisation of field values is trusted; type ids are taken from the text of api.proto",
        "cryptography's ChaCha20Poly1305 with explicit nonces is the device-side reference",
    ]


def replay(ctx, case):
    if case["kind"] == "edge":
        mm = replay_behaviour(random.Random(0), case["mode"], case["hist"])
        if mm is not None:
            ctx.violation(case["sig"], {"mismatch": mm})
    else:
        print("trace cases are re-validated by running the check with the recorded seed")
