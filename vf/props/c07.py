"""C07 - stop callback fires exactly once per established session, with the right reason."""

from vf import clientsim
from vf.props import c19, conn_common


def run(ctx):
    ctx.rule = (
        "TLC: StopAtMostOnce, StopOnlyIfConnected, StopWhenClosedAfterConnected over all interleavings of user calls, device events, "
        "faults (<= 2) and task resumptions within the bounds; schedules: one per distinct quiescent model state + a close cause before "
        "every step + random stories; each executed on the real APIConnection, the stop callback's invocations and arguments sampled "
        "after EVERY loop callback, traces validated by TLC; client level: the application's stop callback is counted in the traces of "
        "the real APIClient (a disturbance at every stage of a connect, stop callbacks that reconnect) and must equal the number of "
        "ended sessions (Client.tla nstop), each time with the right reason (sa: graceful end initiated on that connection); distinct = distinct schedule"
    )
    conn_common.run_general_property(ctx)
    # client level: the callback the application handed to connect() / start_connection()
    import random

    rng = random.Random(ctx.seed + 7)
    fams = {"client_stages": clientsim.stage_family(c19.CFGS[:2]), "client_stop_hook": clientsim.stop_hook_family(c19.CFGS[:1]),
            "client_random": [(c, clientsim.random_history(rng, c, rng.randrange(2, 4), rng.choice((0.1, 0.25, 0.5)))) for c in (rng.choice(c19.CFGS) for _ in range(400 if ctx.quick else 10000))]}
    for name, cases in fams.items():
        res = c19.run_family(ctx, name, cases)
        ctx.evaluations += res["n"]
        ctx.distinct |= {(name, i) for i in range(res["n"])}
        ctx.extra[f"reached_{name}"] = res["reach"]
        for f in res["findings"]:
            if "ns" in f["fields"] or "sa" in f["fields"] or f["fields"] == ["hang"]:
                ctx.violation(f"Client/{name}/{f['cause']}/{'+'.join(f['fields'])}", {"kind": "client-trace", "family": name, **f})
            else:
                ctx.notes.append(f"client-level mismatch outside C07 ({f['fields']}) seen in family {name}")
    ctx.notes[:] = sorted(set(ctx.notes))[:20]


def replay(ctx, case):
    if case.get("kind") == "client-trace":
        c19.replay(ctx, case)
    else:
        conn_common.replay_case(ctx, case)
