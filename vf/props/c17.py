"""C17 - one converted callback per subscribed message; camera images reassemble per key."""

import random

from vf import sessionsim
from vf.props import sess_common


def run(ctx):
    ctx.rule = (
        "TLC: OnePerMessage, CameraConcat, ImgKeysUnique on Session.tla; families on the real APIClient: TLC-generated histories (one per distinct state of a bounded instance, shortest first); all 21 state types with one and two "
        "subscribers, ALL interleavings of two cameras' three-chunk streams (+ empty chunks, a second image), unsubscribe at every point of a "
        "stream for every subscription family that has an unsubscribe, voice-assistant handler outcomes {port, none, pending} x audio x "
        "unsubscribe at every point x every gap, random histories; callback rows carry model type, key, value check against the sent message, "
        "image parts; validated by TLC; distinct = distinct schedule"
    )
    rng = random.Random(ctx.seed + 17)
    ctx.tlc("MC_Session", "MC_Session_subs.cfg", coverage=not ctx.quick, timeout=3000)
    sysf = [(sess_common.CFGS[i % 2], s) for i, s in enumerate(sessionsim.c17_systematic(rng, ctx.quick))]
    rnd = [(rng.choice(sess_common.CFGS), sessionsim.c17_random(rng, rng.randrange(3, 16))) for _ in range(800 if ctx.quick else 20000)]
    tlcf = sess_common.tlc_histories(ctx, "MC_Session_subs_gen.cfg", 1500 if ctx.quick else None, rng)
    sess_common.run_families(ctx, {"subs_tlc": tlcf, "subs_systematic": sysf, "subs_random": rnd})
    ctx.assumptions += [
        "the model class expected for each state message is a literal table in the harness (written from the API documentation)",
        "values: the callback's model must equal the conversion of the message that was sent with that key (conversion itself is C14's business)",
    ]


def replay(ctx, case):
    sess_common.replay(ctx, case)
