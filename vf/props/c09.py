"""C09 - operations end in bounded time with a classified error; first cause wins."""

from vf import connsim
from vf.props import conn_common


def run(ctx):
    ctx.rule = (
        "TLC: ClassifiedErrors, ReleasedAtRest and the liveness formula EventuallySettled (<>[] no operation pending) under weak fairness of "
        "the internal steps and of time on the connect slice; general families (a close cause / silence before every step with every gap, TLC "
        "schedules, random stories): every operation outcome (class, virtual completion instant) is a validated trace row, idle rows require "
        "the specification to have nothing left to run (hang detection), raw exceptions are attributed here; own family: duplicate / late / "
        "early responses, silence until the time-out and every kind of close around request-response calls in all three call shapes; "
        "distinct = distinct schedule"
    )

    def build(ctx, rng):
        return {"responses": connsim.c09_family(rng, ctx.quick)}

    conn_common.dedicated(ctx, "c09", [("MC_Connection_live.cfg" if ctx.quick else "MC_Connection_live_deep.cfg", {"coverage": False})], build)
    conn_common.run_general_property(ctx)
    # the awaited operations above the connection (Bluetooth calls): whatever the device answers, they end with their
    # result or a library error - a raw exception (attribute error, index error ...) or an operation that never ends is
    # a violation of this property; the operation table itself is C16's business
    from vf import sessionsim
    from vf.props import sess_common

    cross, special = sessionsim.c16_systematic()
    cases = [(sess_common.CFGS[i % 2], s) for i, s in enumerate(special + rng_sample(cross, 300 if ctx.quick else 3000, ctx.seed))]
    res = sess_common.run_family(ctx, "ble_ops", cases)
    ctx.evaluations += res["n"]
    ctx.distinct |= {("ble_ops", i) for i in range(res["n"])}
    ctx.extra["reached_ble_ops"] = res["reach"]
    for f in res["findings"]:
        raw = any(str(d[1]).startswith("RAW:") for r in f["rows"] for d in r.get("dn", []))
        if raw or f["fields"] == ["hang"] or f["cause"] == "idle":
            ctx.violation(f"Session/ble_ops/{f['cause']}/{'+'.join(f['fields'])}", {"kind": "session-trace", "family": "ble_ops", **f})
        else:
            ctx.notes.append(f"operation-table mismatch (C16) seen in family ble_ops: {f['fields']}")
    ctx.notes[:] = sorted(set(ctx.notes))[:20]
    # the connection-management calls of the client (connect / start / finish / disconnect, also racing each other):
    # a raw exception escaping one of them is a violation of this property; the pointer discipline itself is C19's
    from vf import clientsim
    from vf.props import c19
    import random as _random

    rc = _random.Random(ctx.seed + 90)
    ccases = clientsim.stage_family(c19.CFGS[:1]) + clientsim.stop_hook_family(c19.CFGS[:1]) + [(c, clientsim.random_history(rc, c, rc.randrange(2, 4), rc.choice((0.25, 0.5)))) for c in (rc.choice(c19.CFGS) for _ in range(300 if ctx.quick else 5000))]
    cres = c19.run_family(ctx, "client_calls", ccases)
    ctx.evaluations += cres["n"]
    ctx.distinct |= {("client_calls", i) for i in range(cres["n"])}
    for f in cres["findings"]:
        raw = bool(f.get("raw_outcomes")) or any(str(d[1]).startswith("RAW:") for r in f["rows"] for d in r.get("dn", []))
        if raw or f["fields"] == ["hang"]:
            ctx.violation(f"Client/client_calls/{f['cause']}/{'+'.join(f['fields'])}", {"kind": "client-trace", "family": "client_calls", **f})
        else:
            ctx.notes.append(f"client-level mismatch outside C09 ({f['fields']}) seen in family client_calls")
    ctx.notes[:] = sorted(set(ctx.notes))[:20]
    ctx.assumptions.append("liveness is checked on the bounded connect slice only; on the real code 'never hangs' is the idle-row rule plus exact completion instants")


def rng_sample(xs, n, seed):
    import random

    return random.Random(seed + 9).sample(xs, min(n, len(xs)))


def replay(ctx, case):
    if case.get("kind") == "client-trace":
        from vf.props import c19

        c19.replay(ctx, case)
        return
    if case.get("kind") == "session-trace":
        from vf.props import sess_common

        sess_common.replay(ctx, case)
        return
    conn_common.replay_case(ctx, case)
