"""C09 - operations end in bounded time with a classified error; first cause wins."""

from vf import connsim
from vf.props import conn_common


def run(ctx):
    ctx.rule = (
        "TLC: ClassifiedErrors, ReleasedAtRest and the liveness formula EventuallySettled (<>[] no operation pending) under weak fairness of "
        "the internal steps and of time on the connect slice; general families (a close cause / silence before every step with every gap, TLC "
        "schedules, random stories): every operation outcome (class, virtual completion instant) is a validated trace row, idle rows require "
        "the specification to have nothing left to run (hang detection), raw exceptions are attributed here; own family: duplicate / late / "
        "early responses, silence until the time-out and every kind of close around request-response calls in all three call shapes; "
        "distinct = distinct schedule"
    )

    def build(ctx, rng):
        return {"responses": connsim.c09_family(rng, ctx.quick)}

    conn_common.dedicated(ctx, "c09", [("MC_Connection_live.cfg" if ctx.quick else "MC_Connection_live_deep.cfg", {"coverage": False})], build)
    conn_common.run_general_property(ctx)
    ctx.assumptions.append("liveness is checked on the bounded connect slice only; on the real code 'never hangs' is the idle-row rule plus exact completion instants")


def replay(ctx, case):
    conn_common.replay_case(ctx, case)
