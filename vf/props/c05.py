"""C05 — connection state only moves forward; closed is final; one connect per object."""

from vf.props import conn_common


def run(ctx):
    ctx.rule = (
        "TLC: all interleavings of user calls, device events, faults (<= 2) and task resumptions within the bounds "
        "(action properties ForwardOnly, ClosedFinal; invariant ConnectedFlag); schedules: one per distinct quiescent model "
        "state + random stories with faults; each executed on the real APIConnection, state sampled after EVERY loop "
        "callback, traces validated by TLC; distinct = distinct schedule"
    )
    conn_common.run_general_property(ctx)


def replay(ctx, case):
    conn_common.replay_case(ctx, case)
