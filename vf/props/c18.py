"""C18 - reconnect manager: one attempt at a time, specified backoff, clean stop."""

import json
import logging
import random
import re

from vf import reconsim
from vf.tlc import TLCFailure


def run_family(ctx, name: str, cases: list) -> dict:
    logging.disable(logging.CRITICAL)
    from vf import watchdog

    traces, findings, kept = [], [], []
    for i, sch in enumerate(cases):
        try:
            with watchdog.limit(90, "schedule"):
                traces.append(reconsim.run_schedule({}, sch, seed=ctx.seed * 31 + i))
            kept.append(sch)
        except watchdog.Hang:
            findings.append({"event": "hang", "schedule": sch, "line": 0, "rows": []})
    cases = kept
    from vf import tracecheck

    norm = [{"rows": [{"e": r["e"], "t": r["t"], "snap": r.get("snap", {"rs": "", "started": False, "tries": 0, "timer": -1, "listen": False})} for r in t["rows"]]} for t in traces]
    res = tracecheck.run_batch(ctx, "TraceReconnect", norm, batch=2000, tag=name)
    for idx, line in res["rejected"]:
        t = traces[idx]
        row = t["rows"][line - 1] if line - 1 < len(t["rows"]) else {"e": ["end"]}
        findings.append({"event": row["e"][0], "schedule": cases[idx], "line": line, "rows": t["rows"][max(0, line - 8) : line + 2]})
    for idx, invname in res["invariant"]:
        findings.append({"event": "invariant:" + invname, "schedule": cases[idx], "line": 0, "rows": traces[idx]["rows"][-10:]})
    ev = [r["e"][0] for t in traces for r in t["rows"]]
    reach = {k: ev.count(k) for k in ("attempt", "error_cb", "connect_cb", "disconnect_cb", "zc_add", "zc_remove", "stop_ret", "mdns")}
    reach["max_tries_seen"] = max([r["snap"]["tries"] for t in traces for r in t["rows"] if "snap" in r and r["snap"]["tries"] < 100] or [0])
    reach["skipped_events"] = sum(t["skipped"] for t in traces)
    return {"n": len(cases), "rows": sum(len(t["rows"]) for t in traces), "findings": findings, "reach": reach}


def run(ctx):
    ctx.rule = (
        "TLC: OneAtATime, StoppedMeansQuiet, NoAttemptWhileUp, TimerSanctioned, BackoffByTries, CallbacksAlternate over all orders of "
        "start/stop/mDNS records/attempt outcomes/session ends/time within 9 steps of Reconnect.tla; TLC-generated histories (one per distinct "
        "state of an 8-step instance) driven through the real ReconnectLogic on the real "
        "APIClient over the simulated network: the whole back-off ladder (9 consecutive failures) per failure kind, auth/encryption failures, "
        "stop/start/matching and foreign mDNS records/timer placed before every step of every two-attempt story with every gap, record and "
        "timer in one instant (both orders), random stories; the event stream (attempt instants, callbacks, listener add/remove, stop return) "
        "and the manager's snapshot at every rest point are validated by TLC; distinct = distinct schedule"
    )
    rng = random.Random(ctx.seed + 18)
    ctx.tlc("MC_Reconnect", coverage=True, timeout=1200)
    sysf = reconsim.systematic()
    if ctx.quick and len(sysf) > 1500:
        keep = [s_ for s_ in sysf[8:-2] if ("ev", "user_disconnect") in s_]
        head, rest = sysf[:8], [s_ for s_ in sysf[8:-2] if ("ev", "user_disconnect") not in s_]
        sysf = head + keep + rng.sample(rest, 1400 - len(keep)) + sysf[-2:]
    rnd = [reconsim.random_story(rng, rng.randrange(2, 14)) for _ in range(600 if ctx.quick else 20000)]
    # TLC-generated histories: one per distinct state of the manager (8 steps, 30 s), shortest first
    from vf.tlc import parse_tagged

    rg = ctx.tlc("MC_Reconnect", "MC_Reconnect_gen.cfg", workers=1, timeout=1200)
    hists = parse_tagged(sorted(set(rg.raw_printed)), "SCHED")
    if len(hists) < 1000:
        raise TLCFailure(f"MC_Reconnect_gen printed only {len(hists)} histories")
    ctx.extra["tlc_generated_histories"] = len(hists)
    if ctx.quick:
        hists = rng.sample(hists, 1500)
    tlcf = [reconsim.tokens_to_schedule(h, i) for i, h in enumerate(hists)]
    for name, cases in {"tlc": tlcf, "systematic": sysf, "random": rnd}.items():
        res = run_family(ctx, name, cases)
        ctx.evaluations += res["n"]
        ctx.distinct |= {(name, i) for i in range(res["n"])}
        ctx.extra[f"reached_{name}"] = res["reach"]
        ctx.extra[f"rows_{name}"] = res["rows"]
        ctx.sample({f"{name}_schedule": cases[len(cases) // 2][:16]})
        for f in res["findings"]:
            ctx.violation(f"Reconnect/{name}/{f['event']}", {"kind": "recon-trace", "family": name, **f})
    # log_runner.async_run on top of the manager (LogRunner.tla): one subscription per established session, the
    # configuration dump requested the first time only, log lines delivered while a session is up, quiet after stop
    from vf import tracecheck

    ctx.tlc("MC_LogRunner", timeout=300)
    lcases = reconsim.log_runner_family(rng, 150 if ctx.quick else 3000)
    ltraces = [reconsim.run_log_schedule(sch, seed=ctx.seed * 17 + i) for i, sch in enumerate(lcases)]
    lres = tracecheck.run_batch(ctx, "TraceLogRunner", [{"rows": t["rows"]} for t in ltraces], batch=2000, tag="logrunner")
    ctx.evaluations += len(lcases)
    ctx.distinct |= {("log_runner", i) for i in range(len(lcases))}
    ctx.extra["reached_log_runner"] = {k: sum(1 for t in ltraces for r in t["rows"] if r["e"][0] == k) for k in ("sub", "log", "down", "stop_ret")}
    # (no listed property is about the log runner: a mismatch here is reported in the evidence, it is NOT a violation of C18)
    mism = []
    for idx, line in lres["rejected"]:
        row = ltraces[idx]["rows"][line - 1] if line - 1 < len(ltraces[idx]["rows"]) else {"e": ["end"]}
        mism.append({"event": row["e"], "line": line, "schedule": lcases[idx][:30]})
    for idx, invname in lres["invariant"]:
        mism.append({"event": ["invariant", invname], "line": 0, "schedule": lcases[idx][:30]})
    ctx.extra["log_runner_mismatches"] = len(mism)
    if mism:
        ctx.extra["log_runner_first_mismatch"] = mism[0]
        ctx.notes.append(f"log_runner.async_run deviates from LogRunner.tla in {len(mism)} executions (outside the listed properties)")
    ctx.assumptions += [
        "user callbacks return without awaiting; start() is called on a stopped manager at rest without a live session",
        "a cancelled attempt ends as a failed attempt (it is counted and reported like one), as the library converts the cancellation",
        "a retry timer left armed by an mDNS-triggered attempt and firing while that attempt is still connecting restarts it (its instant is sanctioned)",
    ]


def replay(ctx, case):
    if case.get("kind") == "logrunner-trace":
        from vf import tracecheck

        t = reconsim.run_log_schedule([tuple(x) for x in case["schedule"]], seed=case.get("seed", 0))
        res = tracecheck.run_batch(ctx, "TraceLogRunner", [{"rows": t["rows"]}], batch=10, tag="replay")
        for idx, line in res["rejected"]:
            print("  unexplained row", line, t["rows"][line - 1] if line - 1 < len(t["rows"]) else "end")
            ctx.violation(case["sig"], {"kind": "logrunner-trace", "line": line})
        return
    res = run_family(ctx, "replay", [[tuple(x) for x in case["schedule"]]])
    for f in res["findings"]:
        print("  unexplained row", f["line"], f["event"])
        ctx.violation(case["sig"], {"kind": "recon-trace", **f})
