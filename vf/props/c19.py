"""C19 - the client never wedges and refuses work unless a session is alive."""

import logging
import random
import re

from vf import clientsim, tlaval
from vf.tlc import TLCFailure, parse_tagged
import json

CFGS = [dict(noise=False, login=False), dict(noise=True, login=False), dict(noise=False, login=True)]


def run_family(ctx, name: str, cases: list) -> dict:
    logging.disable(logging.CRITICAL)
    from vf import watchdog

    traces, findings, kept = [], [], []
    cases = [(dict(cfg, debug=True) if i % 3 == 2 else cfg, sch) for i, (cfg, sch) in enumerate(cases)]
    for i, (cfg, sch) in enumerate(cases):
        try:
            with watchdog.limit(90, "schedule"):
                traces.append(clientsim.run_schedule(cfg, sch, seed=ctx.seed * 7919 + i))
            kept.append((cfg, sch))
        except watchdog.Hang:
            findings.append({"fields": ["hang"], "cause": "hang", "cfg": cfg, "schedule": sch, "line": 0, "rows": []})
    cases = kept
    gaps = sorted({g for t in traces for g in t["gaps"]})
    from vf import tracecheck

    res = tracecheck.run_batch(ctx, "TraceClient", traces, batch=3000, tag=name)
    for idx, line in res["rejected"]:
        t = traces[idx]
        ds = res["diags"].get((idx, line), [])
        fields = sorted(min(ds, key=len)) if ds else ["unexplained"]
        row = t["rows"][line - 1] if line - 1 < len(t["rows"]) else {}
        findings.append({"fields": fields, "cause": row.get("c"), "cfg": t["cfg"], "schedule": cases[idx][1], "line": line, "rows": t["rows"][max(0, line - 8) : line],
                         # raw (non-library) exceptions that escaped from an awaited call anywhere in this execution
                         "raw_outcomes": sorted({str(d[1]) for r in t["rows"] for d in r["dn"] if str(d[1]).startswith("RAW:")})})
    for idx, invname in res["invariant"]:
        t = traces[idx]
        findings.append({"fields": ["invariant:" + invname], "cause": "invariant", "cfg": t["cfg"], "schedule": cases[idx][1], "line": 0, "rows": t["rows"][-8:]})
    reach = {
        "sessions_established": sum(sum(1 for r in t["rows"] for d in r["dn"] if d[0] in ("finish", "connect") and d[1] == "ok") for t in traces),
        "starts_refused": sum(sum(1 for r in t["rows"] for d in r["dn"] if d[0] in ("start", "connect") and d[1] == "APIConnectionError" and r["c"] in ("UserStart", "UserConnect")) for t in traces),
        "api_refused": sum(sum(1 for r in t["rows"] if r["c"] == "UserApi" and r["wn"] == 0 and any(d[0] == "api" and d[2] for d in r["dn"])) for t in traces),
        "api_accepted": sum(sum(1 for r in t["rows"] if r["c"] == "UserApi" and r["wn"] > 0) for t in traces),
        "max_connections_in_a_history": max((len(t["rows"][-1]["sts"]) if t["rows"] else 0) for t in traces) if traces else 0,
        "skipped_events": sum(t["skipped"] for t in traces),
    }
    return {"n": len(cases), "rows": sum(len(t["rows"]) for t in traces), "findings": findings, "reach": reach, "gaps": gaps}


def run(ctx):
    ctx.rule = (
        "TLC: NeverWedged, RefusedOnlyWhenBusy, OneLive, GateSound over all histories of <= 3 connections / 11 steps (thorough: 14) of Client.tla; "
        "families on the real APIClient: TLC-generated histories (one per distinct state of a 2-connection / 9-step instance, translated to "
        "environment events); a disturbance (disconnect, force, peer close, EOF, reset, resolve/connect error, bad hello, bad password, "
        "timeout, second start) at EVERY stage of a connect with every gap followed by fresh attempts; a stop callback that reconnects / issues a "
        "command in its first step, for every way a session can end; every public API method at every stage "
        "without an authenticated session; random multi-session histories; each trace validated by TLC (TraceClient.tla): pointer identity, state of "
        "every connection object, operation outcomes, writes of refused calls; distinct = distinct schedule"
    )
    rng = random.Random(ctx.seed + 19)
    ctx.tlc("MC_Client", "MC_Client.cfg" if ctx.quick else "MC_Client_deep.cfg", coverage=True, timeout=3000)
    # TLC-generated histories: one per distinct state of the client (MaxConn 2, 9 steps), shortest path first
    r = ctx.tlc("MC_Client", "MC_Client_gen.cfg", workers=1, timeout=1200)
    gen = []
    for hook, toks in parse_tagged(sorted(set(r.raw_printed)), "SCHED"):
        gen.append((hook, toks))
    if len(gen) < 1000:
        raise TLCFailure(f"MC_Client_gen printed only {len(gen)} histories")
    ctx.extra["tlc_generated_histories"] = len(gen)
    if ctx.quick:
        gen = rng.sample(gen, 1500)
    tlc_cases = [(dict(CFGS[i % len(CFGS)], hook=hook), clientsim.tokens_to_schedule(CFGS[i % len(CFGS)], toks, i)) for i, (hook, toks) in enumerate(gen)]
    # names: the instance with expected / announced device names (C06 at the client level) and its histories
    ctx.tlc("MC_Client", "MC_Client_names.cfg", timeout=1200)
    rn = ctx.tlc("MC_Client", "MC_Client_names_gen.cfg", workers=1, timeout=1200)
    ngen = parse_tagged(sorted(set(rn.raw_printed)), "SCHED")
    if ctx.quick:
        ngen = rng.sample(ngen, min(len(ngen), 800))
    ncfgs = [dict(noise=False, login=False), dict(noise=True, login=False)]
    names_tlc = [(dict(ncfgs[i % 2], hook="none"), clientsim.tokens_to_schedule(ncfgs[i % 2], toks, i)) for i, (hook, toks) in enumerate(ngen)]
    fams = {
        "tlc": tlc_cases,
        "names_tlc": names_tlc,
        "names": clientsim.names_family(CFGS),
        "stages": clientsim.stage_family(CFGS),
        "gate_sweep": clientsim.gate_sweep(CFGS),
        "stop_hook": clientsim.stop_hook_family(CFGS),
        "random": [(c, clientsim.random_history(rng, c, rng.randrange(1, 4), rng.choice((0.1, 0.25, 0.5))))
                   for c in (dict(rng.choice(CFGS), hook=rng.choice(("none", "none", "start", "api"))) for _ in range(1500 if ctx.quick else 30000))],
    }
    for name, cases in fams.items():
        res = run_family(ctx, name, cases)
        ctx.evaluations += res["n"]
        ctx.distinct |= {(name, i) for i in range(res["n"])}
        ctx.extra[f"reached_{name}"] = res["reach"]
        ctx.extra[f"rows_{name}"] = res["rows"]
        if res["gaps"]:
            ctx.undecided.append(f"API methods whose arguments could not be synthesised: {res['gaps']}")
        ctx.sample({f"{name}_schedule": [cases[len(cases) // 2][0], cases[len(cases) // 2][1][:30]]})
        for f in res["findings"]:
            fields = set(f["fields"])
            # what Client.tla says about the stop callback (C07) and about device names (C06) is decided by those
            # properties' checks, which run these families themselves; here it is only noted
            if fields <= {"sa", "ns"}:
                ctx.notes.append(f"stop-callback mismatch (C07) seen in family {name}: {sorted(fields)}")
            elif name in ("names", "names_tlc") and not (fields & {"pi", "gate", "not_enabled", "hang"}):
                ctx.notes.append(f"device-name mismatch (C06) seen in family {name}: {sorted(fields)}")
            else:
                ctx.violation(f"Client/{name}/{f['cause']}/{'+'.join(f['fields'])}", {"kind": "client-trace", "family": name, **f})
        ctx.notes[:] = sorted(set(ctx.notes))[:20]
    ctx.assumptions += [
        "finish_connection is only called on a connection a successful start_connection left opened (precondition of the API)",
        "a start_connection issued while a previous attempt on the client is still unwinding may be refused (an attempt is in progress)",
        "World/SimTransport fidelity as for the Connection checks",
    ]


def replay(ctx, case):
    logging.disable(logging.CRITICAL)
    res = run_family(ctx, "replay", [(case["cfg"], [tuple(x) for x in case["schedule"]])])
    for f in res["findings"]:
        print("  unexplained row", f["line"], "fields", f["fields"])
        ctx.violation(case["sig"], {"kind": "client-trace", **f})
