"""Shared driver for the Connection.tla properties (C05-C12).

family = a named set of (config, schedule) pairs, produced by TLC (one schedule
per distinct quiescent state of a bounded instance of the specification) and by
seeded random story generators with parameters beyond the model's bounds.
Every schedule is executed on the real APIConnection inside the virtual-time
loop; the recorded traces go back to TLC (TraceConnection.tla).  A row the
specification cannot explain is attributed to the properties whose projected
fields differ (DESIGN 5.4).
"""

from __future__ import annotations

import hashlib
import json
import logging
import os
import random
import re
from pathlib import Path

from vf import connsim, tlaval
from vf.ctx import REPO, ROOT
from vf.tlc import TLCFailure, parse_tagged

CACHE_DIR = Path(os.environ.get("VERIF_CACHE_DIR", ROOT / "out" / "cache"))

FIELD_PROP = {
    "cs": "C05", "ic": "C05",
    "stops": "C07",
    "sock": "C08", "tr": "C08", "tm": "C08", "pm": "C08",
    "skipped_timer": "C09", "not_enabled": "C09",
    "nh": "C11", "nw": "C11",
}


def tree_hash() -> str:
    h = hashlib.sha1()
    for base, pats in ((REPO / "aioesphomeapi", ("*.py", "_frame_helper/*.py", "*.proto")), (ROOT / "spec", ("*.tla", "*.cfg")), (ROOT / "vf", ("*.py", "props/*.py"))):
        for pat in pats:
            for f in sorted(base.glob(pat)):
                h.update(str(f.relative_to(base)).encode())
                h.update(f.read_bytes())
    return h.hexdigest()


INV_PROP = {"ConnectedFlag": {"C05"}, "StopAtMostOnce": {"C07"}, "StopOnlyIfConnected": {"C07"}, "StopWhenClosedAfterConnected": {"C07"},
            "Released": {"C08"}, "ReleasedAtRest": {"C08"}, "ClassifiedErrors": {"C09"}, "ForwardOnly": {"C05"}, "ClosedFinal": {"C05"}, "Silent": {"C08"}}


# ------------------------------------------------------------- TLC schedules
def tokens_to_schedule(tokens: list) -> list:
    sch: list = []
    i = 0
    n = len(tokens)
    while i < n:
        t = tokens[i]
        k = t[0]
        if k == "i":
            j = i
            while j < n and tokens[j][0] == "i":
                j += 1
            cnt = j - i
            sch.append(("iter", cnt) if cnt <= 2 else ("idle",))
            i = j
            continue
        if k == "t":
            sch.append(("tick",))
        elif k == "w":
            sch.append(("adv", int(t[1]) * 1000))
        elif k == "chunk":
            sch.append(("ev", "chunk", [dict(m) for m in t[1]]))
        elif k == "finish":
            sch.append(("ev", "finish", bool(t[1])))
        elif k == "writefail":
            sch.append(("ev", "writefail", bool(t[1])))
        elif k == "cancel_op":
            sch.append(("ev", "cancel_op", t[1]))
        else:
            sch.append(("ev", *t))
        i += 1
    sch.append(("idle",))
    sch.append(("tick",))
    sch.append(("tick",))
    return sch


def tlc_schedules(ctx, cfg_file: str, limit: int | None, rng: random.Random, connected: bool = False, kscale: int = 1000) -> list:
    """Schedules printed by a GenMode run; `connected`: the slice starts from InitConnected, so the
    real connection first goes through the happy connect."""
    r = ctx.tlc("MC_Connection", cfg_file, workers=1, timeout=3000)
    seen = set()
    out = []
    prefix = '<<"SCHED", "'
    for line in r.raw_printed:
        if not line.startswith(prefix) or line in seen:
            continue
        seen.add(line)
        cfg, toks, naddr = parse_tagged([line], "SCHED")[0]
        c = {"noise": bool(cfg["noise"]), "exp": cfg["exp"], "login": bool(cfg["login"]), "K": int(cfg["K"]) * 1000, "naddr": int(naddr)}
        sch = tokens_to_schedule(toks)
        if connected and len(out) % 2 == 1:
            # what happens above an established session does not depend on the framing: every other
            # generated schedule runs over Noise (the trace carries the framing, the specification follows)
            c = dict(c, noise=True)
        out.append((c, (connsim.happy_connect(c) + sch) if connected else sch))
    if limit is not None and len(out) > limit:
        out = rng.sample(out, limit)
    return out


# ------------------------------------------------------------- attribution
def attribute(diag_sets: list, rows: list, line: int) -> tuple[set, list]:
    """Properties whose tagged fields differ in the closest explanation."""
    if not diag_sets:
        return {"C09"}, ["unexplained"]
    best = min(diag_sets, key=len)
    row = rows[line - 1] if line - 1 < len(rows) else {}
    prev_closed = line >= 2 and rows[line - 2]["cs"] == "closed"
    props = set()
    for f in best:
        if f in FIELD_PROP:
            p = FIELD_PROP[f]
            if f in ("not_enabled", "skipped_timer") and row.get("c") == "int" and "PingRequest" in row.get("w", []):
                p = "C10"
            props.add(p)
            if f in ("not_enabled", "skipped_timer") and prev_closed:
                # something of a closed connection is still going on (a task blocked on it, a timer armed): C08 as well
                props.add("C08")
        elif f == "d":
            props.add("C08" if (prev_closed or row.get("cs") == "closed") else "C12")
            if not prev_closed:
                props.add("C12")
        elif f == "w":
            w = row.get("w", [])
            if prev_closed:
                props.add("C08")
            elif "PingRequest" in w or row.get("c") == "int" and not w:
                props.add("C10")
            else:
                props.add("C12")
            if row.get("cs") == "closed":
                props.add("C08")
        elif f == "dn":
            for op, out, _ in row.get("dn", []) or [["?", "?", []]]:
                if str(out).startswith("RAW:"):
                    props.add("C09")  # a raw (non-library) exception escaped from an awaited operation
                if op in ("c1", "c2", "c3"):
                    props.add("C11")
                elif op == "finish":
                    props.add("C06")
                    props.add("C09")
                else:
                    props.add("C09")
            if not row.get("dn"):
                props |= {"C09", "C11"}
    if (row.get("c") in ("UserStart", "UserFinish") and ("dn" in best or "cs" in best) and line >= 2
            and rows[line - 2]["cs"] != ("init" if row["c"] == "UserStart" else "opened")):
        # "a connection object can be used for one connect attempt only": a second start_connection / finish_connection
        # (the object has been past that phase already) must be refused at once
        props.add("C05")
    if row.get("c") == "EnvJunk":
        # the first fatal cause (requires-encryption / protocol error) must take effect at the offending byte:
        # what the waiting operation reports later depends on it
        props.add("C09")
    return props or {"C09"}, sorted(best)


# ---------------------------------------------------------------- families
DEFAULT_CFGS = [
    dict(noise=False, exp="dev", login=True, K=20000, naddr=2),
    dict(noise=False, exp="dev", login=True, K=20000),
    dict(noise=True, exp="none", login=False, K=20000),
    dict(noise=False, exp="none", login=False, K=20000),
    dict(noise=True, exp="dev", login=True, K=20000),
]


def random_family(rng: random.Random, n: int, p_fault: float, calls: bool, subs: bool, max_events: int = 6):
    out = []
    for _ in range(n):
        cfg = rng.choice(DEFAULT_CFGS)
        out.append((cfg, connsim.random_schedule(rng, cfg, rng.randrange(0, max_events), p_fault, calls, subs)))
    return out


def _jsonable(v):
    if isinstance(v, (set, frozenset)):
        return sorted((_jsonable(x) for x in v), key=repr)
    if isinstance(v, (list, tuple)):
        return [_jsonable(x) for x in v]
    if isinstance(v, dict):
        return {str(k): _jsonable(x) for k, x in v.items()}
    return v


def run_family(ctx, name: str, cases: list) -> dict:
    """Execute and validate a family.  Result (cacheable): stats + findings."""
    logging.disable(logging.CRITICAL)
    from vf import watchdog

    traces = []
    findings = []
    kept = []
    # every third case runs with the library's debug-logging paths switched on
    cases = [(dict(cfg, debug=True) if i % 3 == 2 else cfg, sch) for i, (cfg, sch) in enumerate(cases)]
    for i, (cfg, sch) in enumerate(cases):
        try:
            with watchdog.limit(90, "schedule"):
                traces.append(connsim.run_schedule(cfg, sch, seed=ctx.seed * 1000003 + i))
            kept.append((cfg, sch))
        except watchdog.Hang:
            findings.append({"props": ["C09"], "fields": ["hang"], "cause": "hang", "cfg": cfg, "schedule": sch, "line": 0, "rows": []})
    cases = kept
    rows_total = sum(len(t["rows"]) for t in traces)
    from vf import tracecheck

    res = tracecheck.run_batch(ctx, "TraceConnection", traces, batch=3000, tag=name)
    for idx, line in res["rejected"]:
        t = traces[idx]
        props, fields = attribute(res["diags"].get((idx, line), []), t["rows"], line)
        row = t["rows"][line - 1] if line - 1 < len(t["rows"]) else {}
        findings.append({"props": sorted(props), "fields": fields, "cause": row.get("c"), "cfg": t["cfg"], "schedule": cases[idx][1], "line": line,
                         "rows": t["rows"][max(0, line - 8) : line], "model": _jsonable(res.get("views", {}).get((idx, line)))})
    for idx, invname in res["invariant"]:
        t = traces[idx]
        findings.append({"props": sorted(INV_PROP.get(invname, {"C05", "C07", "C08", "C09"})), "fields": ["invariant:" + invname], "cause": "invariant", "cfg": t["cfg"],
                         "schedule": cases[idx][1], "line": 0, "rows": t["rows"][-8:]})
    if True:
        part, off = traces, 0
        # wire-format complaints of the independent device decoder belong to C02
        for idx, t in enumerate(part):
            if t.get("format_errors"):
                findings.append({"props": ["C02"], "fields": ["format"], "cause": "write", "cfg": t["cfg"], "schedule": cases[off + idx][1], "line": 0, "rows": [], "detail": t["format_errors"][:3]})
    # what the executions reached (vacuity guard: a family must exercise what it was built for)
    reach = {"connected": 0, "finish_done": 0, "closed": 0, "calls_done": 0, "deliveries": 0, "pings": 0, "ping_deaths": 0, "skipped_events": 0}
    for t in traces:
        rows = t["rows"]
        reach["connected"] += any(r["cs"] == "connected" for r in rows)
        reach["closed"] += any(r["cs"] == "closed" for r in rows)
        reach["finish_done"] += any(d[0] == "finish" for r in rows for d in r["dn"])
        reach["calls_done"] += sum(1 for r in rows for d in r["dn"] if d[0] in ("c1", "c2", "c3"))
        reach["deliveries"] += sum(len(r["d"]) for r in rows)
        reach["pings"] += sum(r["w"].count("PingRequest") for r in rows)
        reach["ping_deaths"] += any(r["c"] == "int" and r["cs"] == "closed" and r["sa"] == [False] and not r["w"] and not r["dn"] and i and rows[i - 1]["cs"] == "connected" and rows[i - 1]["q"] for i, r in enumerate(rows))
        reach["skipped_events"] += t.get("skipped", 0)
    return {"n": len(cases), "rows": rows_total, "findings": findings, "reach": reach}


def report(ctx, family: str, res: dict, own: bool = False) -> None:
    """own: the family was built to exercise ctx.pid - every unexplained row in it counts for it."""
    for f in res["findings"]:
        sig = f"Connection/{family}/{f['cause']}/{'+'.join(f['fields'])}"
        if ctx.pid in f["props"] or (own and f["fields"] != ["format"]):
            ctx.violation(sig, {"kind": "conn-trace", "family": family, **f})
        else:
            ctx.notes.append(f"mismatch attributed to {f['props']} seen in family {family}: {sig}")
    ctx.notes[:] = sorted(set(ctx.notes))[:20]


def replay_case(ctx, case) -> None:
    """Re-run one recorded schedule and validate its trace."""
    logging.disable(logging.CRITICAL)
    sch = [tuple(x) for x in case["schedule"]]
    res = run_family(ctx, "replay", [(case["cfg"], sch)])
    for f in res["findings"]:
        print("  unexplained row", f["line"], "fields", f["fields"], "attributed to", f["props"])
        if f.get("rows"):
            print("  observed :", json.dumps(f["rows"][-1])[:1500])
        for m in f.get("model") or []:
            print("  specified:", json.dumps(m)[:1500])
        if case["property"] in f["props"]:
            ctx.violation(case["sig"], {"kind": "conn-trace", **f})


# ------------------------------------------------------------------- cache
def cached(ctx, name: str, fn):
    """Run fn(ctx) -> result once per (tree, spec, harness, tier, seed); replays stats."""
    key = hashlib.sha1(f"{tree_hash()}|{ctx.tier}|{ctx.seed}|{name}".encode()).hexdigest()[:20]
    path = CACHE_DIR / f"{name}-{key}.json"
    if path.exists() and not os.environ.get("VERIF_NOCACHE"):
        c = json.loads(path.read_text())
        ctx.states += c["states"]
        ctx.transitions += c["transitions"]
        ctx.traces_validated += c["traces"]
        ctx.tlc_runs += c["tlc_runs"]
        ctx.not_exercised += c["not_exercised"]
        ctx.extra.setdefault("shared_runs_reused_from_cache", []).append(name)
        return c["result"]
    before = (ctx.states, ctx.transitions, ctx.traces_validated, len(ctx.tlc_runs), len(ctx.not_exercised))
    result = fn(ctx)
    CACHE_DIR.mkdir(parents=True, exist_ok=True)
    path.write_text(
        json.dumps(
            {
                "states": ctx.states - before[0],
                "transitions": ctx.transitions - before[1],
                "traces": ctx.traces_validated - before[2],
                "tlc_runs": ctx.tlc_runs[before[3] :],
                "not_exercised": ctx.not_exercised[before[4] :],
                "result": result,
            },
            default=str,
        )
    )
    return result


def general(ctx) -> dict:
    """The families shared by C05, C07, C08, C09: connect/steady/disconnect with faults."""

    def compute(ctx):
        rng = random.Random(ctx.seed + 5)
        out = {}
        # model checking of the design (all interleavings within the bounds)
        ctx.tlc("MC_Connection", "MC_Connection_connect.cfg", coverage=not ctx.quick, timeout=3000)
        if not ctx.quick:
            ctx.tlc("MC_Connection", "MC_Connection_deep.cfg", timeout=6000)
        # TLC-generated schedules: one per distinct quiescent state
        sch = tlc_schedules(ctx, "MC_Connection_bfsgen.cfg", 4000 if ctx.quick else None, rng)
        out["tlc"] = run_family(ctx, "tlc", sch)
        out["tlc"]["sample"] = sch[len(sch) // 2]
        # a close cause (thorough: ordered pairs) before every step of the story, every gap
        fam = connsim.crash_point_family(DEFAULT_CFGS, pairs=not ctx.quick, rng=rng, limit=None if ctx.quick else 60000)
        out["crash"] = run_family(ctx, "crash", fam)
        out["crash"]["sample"] = fam[len(fam) // 3]
        # random stories beyond the bounds
        n = 3000 if ctx.quick else 40000
        fam = random_family(rng, n, 0.2, calls=True, subs=True)
        out["random"] = run_family(ctx, "random", fam)
        out["random"]["sample"] = fam[0]
        return out

    return cached(ctx, "general", compute)


def run_general_property(ctx, extra_families=()):
    res = general(ctx)
    for fam in ("tlc", "crash", "random"):
        report(ctx, fam, res[fam])
        ctx.evaluations += res[fam]["n"]
        ctx.extra[f"rows_{fam}"] = res[fam]["rows"]
    for fam in ("tlc", "crash", "random"):
        ctx.distinct |= {(fam, i) for i in range(res[fam]["n"])}
    ctx.sample({"crash_point_schedule": res["crash"]["sample"]})
    ctx.sample({"tlc_generated_schedule": res["tlc"]["sample"]})
    ctx.sample({"random_schedule": res["random"]["sample"]})
    ctx.assumptions += [
        "schedules are realisable by asyncio: events of one iteration run back to back, library relays take extra iterations",
        "SimTransport mirrors _SelectorSocketTransport (close, force-close, dropped writes after loss, EBADF on a closed fd)",
        "second start_connection / finish_connection while the first is still pending is outside the domain",
    ]


def dedicated(ctx, name: str, mc_cfgs: list, build) -> None:
    """Model-check the property's slices, then run the property's own families.
    build(ctx, rng) -> {family name: [(cfg, schedule)]}"""

    def compute(ctx):
        rng = random.Random(ctx.seed + 17)
        for cfg_file, kw in mc_cfgs:
            ctx.tlc("MC_Connection", cfg_file, coverage=kw.pop("coverage", not ctx.quick), timeout=6000, **kw)
        out = {}
        for fam, cases in build(ctx, rng).items():
            out[fam] = run_family(ctx, fam, cases)
            out[fam]["sample"] = cases[len(cases) // 2] if cases else None
        return out

    res = cached(ctx, name, compute)
    for fam, r in res.items():
        ctx.extra[f"reached_{fam}"] = r.get("reach")
        report(ctx, fam, r, own=True)
        ctx.evaluations += r["n"]
        ctx.extra[f"rows_{fam}"] = r["rows"]
        ctx.distinct |= {(fam, i) for i in range(r["n"])}
        if r.get("sample"):
            s = r["sample"]
            ctx.sample({f"{fam}_schedule": [s[0], s[1][:40]]})
