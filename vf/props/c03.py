"""C03 — Noise sessions interoperate with any conformant responder, for any chunking."""

from vf.props import noise_common


def run(ctx):
    ctx.rule = (
        "TLC: honest sessions x name configurations x all cut sets (thorough: every byte position); replay: one behaviour "
        "per model transition against a stock noiseprotocol responder; traces: random keys/names/0-20 messages/"
        "payloads to 65 000 bytes/random cuts, with client writes interleaved; distinct = distinct (config, cuts) case"
    )
    noise_common.run_noise(ctx, "honest")


def replay(ctx, case):
    noise_common.replay_case(ctx, case)
