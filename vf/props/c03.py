"""C03 — Noise sessions interoperate with any conformant responder, for any chunking."""

from vf import connsim
from vf.props import conn_common, noise_common


def run(ctx):
    ctx.rule = (
        "TLC: honest sessions x name configurations x all cut sets (thorough: every byte position); replay: one behaviour "
        "per model transition against a stock noiseprotocol responder; traces: random keys/names/0-20 messages/"
        "payloads to 65 000 bytes/random cuts, with client writes interleaved; distinct = distinct (config, cuts) case"
    )
    noise_common.run_noise(ctx, "honest")

    # connection level: application frames sharing a chunk with the handshake reply reach a subscriber that
    # listens from before the handshake; the client writes nothing before the handshake is complete
    def build(ctx, rng):
        return {"hs_chunk": connsim.c03_conn_family(rng)}

    conn_common.dedicated(ctx, "c03conn", [], build)
    # client level, Noise: the name rule over several sessions of one client (the expectation set / cleared in between;
    # a name learned from one session must not become an expectation for the next)
    from vf import clientsim
    from vf.props import c19

    res = c19.run_family(ctx, "client_names", clientsim.names_family([dict(noise=True, login=False)]))
    ctx.evaluations += res["n"]
    ctx.distinct |= {("client_names", i) for i in range(res["n"])}
    for f in res["findings"]:
        if set(f["fields"]) & {"pi", "gate"} or set(f["fields"]) <= {"sa", "ns"}:
            # the client's pointer / gate discipline is C19's business, its stop callback C07's: noted only
            ctx.notes.append(f"client-level mismatch outside this property ({f['fields']}) seen in family client_names")
            continue
        ctx.violation(f"Client/client_names/{f['cause']}/{'+'.join(f['fields'])}", {"kind": "client-trace", "family": "client_names", **f})
    ctx.notes[:] = sorted(set(ctx.notes))[:20]
    ctx.rule += "; connection level: frames in the same chunk as / right behind the handshake reply, observed on the real APIConnection and validated by TLC (TraceConnection.tla)"


def replay(ctx, case):
    if case.get("kind") == "client-trace":
        from vf.props import c19

        c19.replay(ctx, case)
    elif case.get("kind") == "conn-trace":
        conn_common.replay_case(ctx, case)
    else:
        noise_common.replay_case(ctx, case)
