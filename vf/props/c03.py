"""C03 — Noise sessions interoperate with any conformant responder, for any chunking."""

from vf import connsim
from vf.props import conn_common, noise_common


def run(ctx):
    ctx.rule = (
        "TLC: honest sessions x name configurations x all cut sets (thorough: every byte position); replay: one behaviour "
        "per model transition against a stock noiseprotocol responder; traces: random keys/names/0-20 messages/"
        "payloads to 65 000 bytes/random cuts, with client writes interleaved; distinct = distinct (config, cuts) case"
    )
    noise_common.run_noise(ctx, "honest")

    # connection level: application frames sharing a chunk with the handshake reply reach a subscriber that
    # listens from before the handshake; the client writes nothing before the handshake is complete
    def build(ctx, rng):
        return {"hs_chunk": connsim.c03_conn_family(rng)}

    conn_common.dedicated(ctx, "c03conn", [], build)
    ctx.rule += "; connection level: frames in the same chunk as / right behind the handshake reply, observed on the real APIConnection and validated by TLC (TraceConnection.tla)"


def replay(ctx, case):
    if case.get("kind") == "conn-trace":
        conn_common.replay_case(ctx, case)
    else:
        noise_common.replay_case(ctx, case)
