"""C12 - dispatch exactly once in order; unknown types ignored; peer requests answered."""

from vf import connsim
from vf.props import conn_common


def run(ctx):
    ctx.rule = (
        "TLC: DispatchExact (deliveries = closed-form 'registered at that moment' per frame, replies, no effect of undefined ids, "
        "protocol error on undecodable payloads) with re-entrant subscribe/unsubscribe scripts; schedules: one per distinct quiescent state of "
        "the dispatch slice + random stories with subscribers + id sweeps (every protocol id and undefined ids {0, N+1.., 127, 128, 255, 256, "
        "16383, 16384, 65535, 65536, 2^31-1}; thorough: every id <= 65535) x payload classes x both framings with a wildcard subscriber; "
        "distinct = distinct schedule"
    )

    def build(ctx, rng):
        gen = conn_common.tlc_schedules(ctx, "MC_Connection_dispatch_gen.cfg", 3000 if ctx.quick else None, rng, connected=True)
        # (calls run next to the subscribers: a response handler that misbehaves must not cost later frames their delivery)
        rnd = conn_common.random_family(rng, 1000 if ctx.quick else 15000, 0.05, calls=True, subs=True, max_events=10)
        return {"disp_tlc": gen, "disp_random": rnd, "id_sweep": connsim.c12_sweep_family(ctx.quick, rng)}

    mc = [("MC_Connection_dispatch.cfg" if ctx.quick else "MC_Connection_dispatch_deep.cfg", {})]
    conn_common.dedicated(ctx, "c12", mc, build)
    conn_common.run_general_property(ctx)
    ctx.assumptions += [
        "a payload with unknown fields is decodable; 'undecodable' = structurally broken for every message type",
        "expected class per id comes from the text of api.proto (independent reader), not from the library's tables",
    ]


def replay(ctx, case):
    conn_common.replay_case(ctx, case)
