"""Shared driver for C03 (honest Noise sessions) and C04 (deviations)."""

from __future__ import annotations

import json
import random

from vf import watchdog, noise_h, simloop, tracecheck
from vf.tlc import parse_tagged


MAC_EXT = b"aabbccddeeff\x00"  # newer devices append their MAC address to the server hello: name NUL mac NUL


def honest_frames(dev_name: str, plens: list[int], hp: int = 0, mac: bool = False) -> list[dict]:
    def fr(k, blen, **kw):
        d = dict(k=k, blen=blen, claim=blen, proto=0, name="none", marker=1, key="good", nonce=0, idx=0, integ="ok")
        d.update(kw)
        return d

    nl = 0 if dev_name == "none" else len(dev_name) + 1 + (len(MAC_EXT) if mac else 0)
    out = [fr("hello", 1 + nl, proto=1, name=dev_name), fr("hs", 49 + hp, name="ok")]
    for i, p in enumerate(plens, 1):
        out.append(fr("data", 20 + p, nonce=i - 1, idx=i))
    return out


def apply_dev(h: list[dict], dev: dict) -> list[dict]:
    """Python mirror of FramesOf (NoiseHelper.tla) for recorded traces."""
    h = [dict(f) for f in h]
    k, i = dev["k"], dev["i"]
    j = i - 1
    if k == "none":
        return h
    if k in ("marker", "plaindev"):
        h[j if k == "marker" else 0]["marker"] = 0
    elif k == "lenUp":
        h[j]["claim"] += 5
        h[j]["integ"] = "bad"
    elif k == "lenDown":
        h[j]["claim"] -= 3
        h[j]["integ"] = "bad"
    elif k in ("body", "tag"):
        h[j]["integ"] = "bad"
    elif k == "dup":
        h.insert(j + 1, dict(h[j]))
    elif k == "swap":
        h[j], h[j + 1] = h[j + 1], h[j]
    elif k == "drop":
        del h[j]
    elif k == "wrongkey":
        h[1]["key"] = "bad"
    elif k == "datakey":
        h[j]["key"] = "bad"
    elif k == "hserr":
        mac = i == 1
        h[1] = dict(h[1], k="hserr", blen=22 if mac else 12, claim=22 if mac else 12, name="mac" if mac else "other")
    elif k == "proto":
        h[0]["proto"] = 2
    elif k == "empty":
        h[0]["blen"] = 0
        h[0]["claim"] = 0
    else:
        raise ValueError(k)
    return h


def random_dev(rng: random.Random, nf: int) -> dict:
    """A random single deviation applicable to an honest stream of nf frames."""
    choices = [("marker", range(1, nf + 1)), ("dup", range(1, nf + 1)), ("drop", range(1, nf + 1)),
               ("wrongkey", [0]), ("hserr", [1, 2]), ("proto", [0]), ("empty", [0]), ("plaindev", [0])]
    if nf >= 2:
        choices += [("lenUp", range(2, nf + 1)), ("lenDown", range(2, nf + 1)), ("body", range(2, nf + 1)), ("tag", range(2, nf + 1)),
                    ("swap", range(1, nf))]
    if nf >= 3:
        choices += [("datakey", range(3, nf + 1))]
    k, r = rng.choice(choices)
    return {"k": k, "i": rng.choice(list(r))}


def simloop_reset():
    """After an interrupted case: make sure no half-installed loop is left behind."""
    import asyncio
    from asyncio import events

    events._set_running_loop(None)
    asyncio.set_event_loop(None)


def record_trace(rng: random.Random, deviate: bool, big: bool, with_writes: bool):
    nm = rng.choice(
        [{"dev": "dev", "exp": "dev"}, {"dev": "dev", "exp": "none"}, {"dev": "none", "exp": "dev"}, {"dev": "none", "exp": "none"},
         {"dev": "other-name", "exp": "none"}, {"dev": "", "exp": "none"}] + ([] if deviate else [{"dev": "oth", "exp": "dev"}, {"dev": "", "exp": "dev"}])
    )
    nm = dict(nm, hp=rng.choice((0, 0, 1, 16, 300)))  # payload attached to the responder's handshake message
    mac = nm["dev"] != "none" and rng.random() < 0.4      # the server hello carries more than the name
    m = rng.randrange(0, 21 if big else 6)
    mode = rng.randrange(5)
    plens = []
    for _ in range(m):
        r = rng.random()
        plens.append(rng.randrange(0, 8) if r < 0.5 else rng.choice((127, 128, 255, 256, 1000, 4000)) if r < 0.85 else rng.randrange(20000, 65000))
    if mode == 4:
        plens.insert(rng.randrange(0, len(plens) + 1), rng.randrange(30000, 65000))  # enough ciphertext to find look-alike chunks in
    honest = honest_frames(nm["dev"], plens, nm["hp"], mac)
    dev = random_dev(rng, len(honest)) if deviate else {"k": "none", "i": 0}
    frames = apply_dev(honest, dev)
    loop = simloop.new_loop()
    try:
        s = noise_h.NoiseSession(rng, nm["dev"], nm["exp"], loop, hp=nm["hp"], mac=mac)
        stream = s.stream(frames, dev["k"])
        # cut positions
        L = len(stream)
        cuts = None
        if mode == 4:
            # chunks that begin INSIDE an encrypted frame and look like one whole frame themselves (0x01, 16-bit
            # length, exactly that many bytes): a helper that trusts the shape of a chunk is fooled by them
            starts = set()
            pos = 0
            for f in frames:
                starts.add(pos)
                pos += 3 + f["blen"]
            first_app = sorted(starts)[2] if len(starts) > 2 else L
            cands = []
            for p0 in range(first_app + 1, L - 3):
                if stream[p0] == 1 and p0 not in starts:
                    e = p0 + 3 + ((stream[p0 + 1] << 8) | stream[p0 + 2])
                    if e <= L:
                        cands.append((p0, e))
            rng.shuffle(cands)
            cuts = set()
            end = 0
            for a, b in sorted(cands[:5]):
                if a >= end:
                    cuts |= {a, b}
                    end = b
            cuts.discard(L)
            if not cuts:
                cuts = None
                mode = 3
        if cuts is not None:
            pass
        elif mode == 0 and L < 600:
            cuts = set(range(1, L))
        elif mode == 1:
            cand = set()
            pos = 0
            for f in frames:
                for d in (1, 2, 3, 4, 3 + f["blen"] // 2, 2 + f["blen"], 3 + f["blen"], 3 + f["claim"], 4 + f["claim"]):
                    if 0 < pos + d < L:
                        cand.add(pos + d)
                pos += 3 + f["blen"]
            cand = sorted(cand)
            cuts = set(rng.sample(cand, rng.randrange(0, len(cand) + 1))) if cand else set()
        elif mode == 2:
            cuts = set()
        else:
            cuts = set(rng.sample(range(1, L), min(L - 1, rng.randrange(0, 40)))) if L > 1 else set()
        edges = [0] + sorted(cuts) + [L]
        events = []

        def log(a, n, nonces=()):
            o = s.observe()
            events.append([a, n, o["nd"], o["ready"], o["rep"], o["closed"], s.delivered_exact(), list(nonces)])

        for a, b in zip(edges, edges[1:]):
            if not s.tr.can_receive():
                break
            s.tr.feed(stream[a:b])
            log("recv", b - a)
            if loop.ready_count():
                loop.run_until_idle()
                log("lost", 0)
            if with_writes and s.helper._state == 3 and not s.tr.is_closing() and rng.random() < 0.5:
                batch = [(rng.choice((1, 7, 300, 65535)), rng.randbytes(rng.choice((0, 1, 5, 200)))) for _ in range(rng.randrange(1, 5))]
                before = len(s.tr.writes)
                s.helper.write_packets(batch, False)
                if len(s.tr.writes) != before + 1:
                    log("write", len(batch), [-1])
                else:
                    dec = s.client_nonces(s.tr.writes[-1])
                    ok = len(dec) == len(batch) and all(d is not None and (d[1], d[2]) == p and d[3] == len(p[1]) for d, p in zip(dec, batch))
                    log("write", len(batch), [d[0] if d else -1 for d in dec] if ok else [-2])
        return {"nm": nm, "dev": dev, "frames": frames, "events": events}
    finally:
        loop.shutdown()


def run_noise(ctx, want: str):
    """want = 'honest' (C03) or 'deviation' (C04)."""
    rng = random.Random(ctx.seed + (3 if want == "honest" else 4))
    # 1. model checking of the design
    if ctx.quick:
        ctx.tlc("MC_NoiseHelper", "MC_NoiseHelper_interesting.cfg", coverage=True)
    else:
        ctx.tlc("MC_NoiseHelper", "MC_NoiseHelper_all.cfg", coverage=True)
    # 2. edge cover -> replay
    r = ctx.tlc("MC_NoiseHelper", "MC_NoiseHelper_gen.cfg", workers=1)
    edges = parse_tagged(r.raw_printed, "EDGE")
    frames_cache = {}
    todo = []
    for nm, dev, frames, hist in edges:
        key = json.dumps([nm, dev], sort_keys=True)
        if frames:
            frames_cache[key] = frames
        todo.append((key, nm, dev, hist))
    sel = [t for t in todo if (t[2]["k"] == "none") == (want == "honest")]
    if ctx.quick and len(sel) > 6000:
        sel = rng.sample(sel, 6000)
    if len(sel) < 500:
        raise RuntimeError(f"edge cover too small for {want}: {len(sel)}")
    for key, nm, dev, hist in sel:
        try:
            with watchdog.limit(10, "replay"):
                mm = noise_h.replay_behaviour(rng, nm, dev, frames_cache[key], hist)
        except watchdog.Hang:
            ctx.violation(f"NoiseHelper/hang/{dev['k']}", {"kind": "edge", "nm": nm, "dev": dev, "frames": frames_cache[key], "hist": hist, "mismatch": "the helper did not return (10 s)"})
            continue
        ctx.replayed += 1
        ctx.case(("edge", key, tuple((h[0], h[1]) for h in hist)))
        if mm is not None:
            ctx.violation(
                f"NoiseHelper/{hist[mm['step']][0]}/{mm['field']}/{dev['k']}",
                {"kind": "edge", "nm": nm, "dev": dev, "frames": frames_cache[key], "hist": hist, "mismatch": mm},
            )
    ctx.sample({"replayed_behaviour": {"nm": sel[0][1], "dev": sel[len(sel) // 2][2], "hist": sel[len(sel) // 2][3]}})
    # 3. recorded traces far beyond the bounds
    ntr = 300 if ctx.quick else 5000
    traces = []
    for i in range(ntr):
        try:
            with watchdog.limit(20, "record"):
                traces.append(record_trace(rng, want == "deviation", big=(i % 3 == 0), with_writes=(want == "honest")))
        except watchdog.Hang:
            ctx.violation("TraceNoise/hang", {"kind": "hang", "trace_index": i, "what": "the helper did not return while the session was recorded (20 s)"})
            simloop_reset()
    for i, t in enumerate(traces):
        ctx.case(("trace", i, len(t["frames"]), len(t["events"])))
    rej = tracecheck.validate(ctx, "TraceNoise", traces, batch=1000)
    for idx, line in rej:
        t = traces[idx]
        ev = t["events"][line - 1] if line - 1 < len(t["events"]) else None
        ctx.violation(
            f"TraceNoise/{ev[0] if ev else 'end'}/{t['dev']['k']}",
            {"kind": "trace", "nm": t["nm"], "dev": t["dev"], "frames": t["frames"], "events": t["events"][: line + 1], "first_unexplained_line": line},
        )
    big = max(traces, key=lambda t: len(t["events"]))
    ctx.sample({"validated_trace": {"nm": big["nm"], "dev": big["dev"], "frames": len(big["frames"]), "events": big["events"][:5]}})
    ctx.assumptions += [
        "the stock noiseprotocol responder (default backend) and cryptography's ChaCha20Poly1305 are standards-conformant",
        "ciphertexts are symbolic in the specification: a frame opens iff key, nonce and integrity match",
    ]


def replay_case(ctx, case):
    if case["kind"] == "edge":
        mm = noise_h.replay_behaviour(random.Random(case.get("seed", 0)), case["nm"], case["dev"], case["frames"], case["hist"])
        if mm is not None:
            ctx.violation(case["sig"], {"mismatch": mm})
    else:
        print("trace cases are re-validated by running the check with the recorded seed")
