"""C16 - Bluetooth operations are matched by address and handle and never cross-talk."""

import random

from vf import sessionsim
from vf.props import sess_common


def run(ctx):
    ctx.rule = (
        "TLC: NoCrossTalk, ForeignIgnored, ConnectTimeoutOrder, NothingLeft, OutcomeSound on Session.tla (<= 3 concurrent operations, "
        "addresses {1,2}, handles {1,2}); families on the real APIClient: TLC-generated histories (one per distinct state of a bounded instance, shortest first); every operation kind x every message kind x {own, foreign address, "
        "foreign handle} alone and next to a concurrent operation, time-out / cancellation / connection loss of every kind, what stays "
        "subscribed afterwards, random histories; every row (outcome + result, callbacks, frames written, distinct callbacks registered, timer "
        "heap at rest) validated by TLC; distinct = distinct schedule"
    )
    rng = random.Random(ctx.seed + 16)
    ctx.tlc("MC_Session", "MC_Session_ble.cfg", coverage=not ctx.quick, timeout=3000)
    cross, special = sessionsim.c16_systematic()
    if ctx.quick:
        cross = rng.sample(cross, 1200)
    sysf = [(sess_common.CFGS[i % 2], s) for i, s in enumerate(cross + special)]
    rnd = [(rng.choice(sess_common.CFGS), sessionsim.c16_random(rng, rng.randrange(3, 14))) for _ in range(800 if ctx.quick else 20000)]
    tlcf = sess_common.tlc_histories(ctx, "MC_Session_ble_gen.cfg" if ctx.quick else "MC_Session_ble_gen_deep.cfg", 1500 if ctx.quick else 60000, rng)
    sess_common.run_families(ctx, {"ble_tlc": tlcf, "ble_systematic": sysf, "ble_random": rnd})
    ctx.assumptions += [
        "'nothing subscribed' excludes what the API documents as staying subscribed after success (connect's state callback until its unsub, notify data callback until stop/remove)",
        "all operations are given the same time-out (30 s; disconnect of a timed-out connect 20 s)",
    ]


def replay(ctx, case):
    sess_common.replay(ctx, case)
