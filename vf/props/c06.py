"""C06 - sessions only with a compatible, correctly named, authenticated device."""

from vf import connsim
from vf.props import conn_common


def run(ctx):
    ctx.rule = (
        "TLC: invariants SessionOnlyIfCompatible / FailedConnectClosedNoStop over all 8 configurations x hello(major, name) x "
        "connect(verdict) x response order x chunking in the bounds; family: version {0..4} x name {equal, other, empty} x password verdict x "
        "order {hello.connect, connect.hello, hello only, connect only} x one/two chunks x {plaintext, noise with/without announced name} x "
        "{expected name set/unset} x {login, password}; each run on the real APIConnection and validated by TLC; distinct = distinct schedule"
    )

    def build(ctx, rng):
        return {"hello": connsim.c06_family(ctx.quick, rng)}

    conn_common.dedicated(ctx, "c06", [("MC_Connection_hello.cfg", {})], build)
    conn_common.run_general_property(ctx)
    # client level: the expected name is a property of the APIClient that may be set / changed / cleared at any time
    # (before start, between the two phases, between sessions); Client.tla: exp / hn / nexp, NameBad
    from vf import clientsim
    from vf.props import c19

    res = c19.run_family(ctx, "client_names", clientsim.names_family(c19.CFGS))
    ctx.evaluations += res["n"]
    ctx.distinct |= {("client_names", i) for i in range(res["n"])}
    ctx.extra["reached_client_names"] = res["reach"]
    for f in res["findings"]:
        if set(f["fields"]) & {"pi", "gate"} or set(f["fields"]) <= {"sa", "ns"}:
            # the client's pointer / gate discipline is C19's business, its stop callback C07's: noted only
            ctx.notes.append(f"client-level mismatch outside this property ({f['fields']}) seen in family client_names")
            continue
        ctx.violation(f"Client/client_names/{f['cause']}/{'+'.join(f['fields'])}", {"kind": "client-trace", "family": "client_names", **f})
    ctx.notes[:] = sorted(set(ctx.notes))[:20]
    ctx.assumptions.append("an empty / absent device name is accepted even when a name is expected (LegacyNoName reading, DESIGN 6)")


def replay(ctx, case):
    if case.get("kind") == "client-trace":
        from vf.props import c19

        c19.replay(ctx, case)
        return
    conn_common.replay_case(ctx, case)
