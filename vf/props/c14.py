"""C14 - models mirror the wire schema; conversion is total and value-preserving."""

import dataclasses
import enum
import inspect
import json
import logging
import math
import shutil
import struct
from decimal import ROUND_HALF_EVEN, Decimal

from vf import protoschema, tlaval
from vf.tlc import SPEC_DIR, TLCFailure, parse_tagged

ENUM_ALIAS = {"AlarmControlPanelCommand": "AlarmControlPanelStateCommand", "LastResetType": "SensorLastResetType",
              "UserServiceArgType": "ServiceArgType", "VoiceAssistantEventType": "VoiceAssistantEvent",
              "VoiceAssistantTimerEventType": "VoiceAssistantTimerEvent"}
EXTRA_CLASSES = {
    "DeviceInfo": "DeviceInfoResponse", "UserService": "ListEntitiesServicesResponse", "UserServiceArg": "ListEntitiesServicesArgument",
    "HomeassistantServiceCall": "HomeassistantServiceResponse", "BluetoothDevicePairing": "BluetoothDevicePairingResponse",
    "BluetoothDeviceUnpairing": "BluetoothDeviceUnpairingResponse", "BluetoothDeviceClearCache": "BluetoothDeviceClearCacheResponse",
    "BluetoothGATTError": "BluetoothGATTErrorResponse", "VoiceAssistantAudioData": "VoiceAssistantAudio",
    "VoiceAssistantAnnounceFinished": "VoiceAssistantAnnounceFinished", "VoiceAssistantAudioSettings": "VoiceAssistantAudioSettings",
    "VoiceAssistantWakeWord": "VoiceAssistantWakeWord", "MediaPlayerSupportedFormat": "MediaPlayerSupportedFormat",
}


def f32(x: float) -> float:
    return struct.unpack("<f", struct.pack("<f", x))[0]


def round7(x: float) -> float:
    """7 significant decimal digits, round-half-even on the exact value; 0, inf, nan unchanged."""
    if x == 0 or math.isinf(x) or math.isnan(x):
        return x
    d = Decimal(x)
    exp = d.adjusted()  # position of the most significant digit
    q = Decimal(1).scaleb(exp - 6)
    return float(d.quantize(q, rounding=ROUND_HALF_EVEN))


ROUNDED_FIELDS = {
    ("ClimateInfo", "visual_min_temperature"), ("ClimateInfo", "visual_max_temperature"), ("ClimateInfo", "visual_target_temperature_step"),
    ("ClimateInfo", "visual_current_temperature_step"), ("ClimateState", "current_temperature"), ("ClimateState", "target_temperature"),
    ("ClimateState", "target_temperature_low"), ("ClimateState", "target_temperature_high"), ("CoverState", "position"), ("CoverState", "tilt"),
    ("LightInfo", "min_mireds"), ("LightInfo", "max_mireds"), ("LightState", "brightness"), ("LightState", "color_brightness"), ("LightState", "red"),
    ("LightState", "green"), ("LightState", "blue"), ("LightState", "white"), ("LightState", "color_temperature"), ("LightState", "cold_white"),
    ("LightState", "warm_white"), ("MediaPlayerEntityState", "volume"), ("NumberInfo", "min_value"), ("NumberInfo", "max_value"), ("NumberInfo", "step"),
    ("NumberState", "state"), ("ValveState", "position"),
}
FLOATS = {"zero": 0.0, "negzero": -0.0, "tenth": 0.1, "third": 1 / 3, "big_int": 12345678.0, "tie": 1.00000025, "pow10": 1000.0,
          "subnormal": 1e-40, "huge": 3.0e38, "inf": float("inf"), "neginf": float("-inf"), "nan": float("nan")}
INT_MAX = {"int32": 2**31 - 1, "sint32": 2**31 - 1, "sfixed32": 2**31 - 1, "uint32": 2**32 - 1, "fixed32": 2**32 - 1, "int64": 2**63 - 1, "uint64": 2**64 - 1, "fixed64": 2**64 - 1}


def same(a, b) -> bool:
    if isinstance(a, float) and isinstance(b, float):
        return (math.isnan(a) and math.isnan(b)) or (a == b and math.copysign(1, a) == math.copysign(1, b))
    return a == b


def run(ctx):
    logging.disable(logging.CRITICAL)
    ctx.rule = (
        "reference = enums / messages / field types read from the TEXT of api.proto; TLC evaluates Models.tla's table statements (values, names, "
        "aliases, field-name mirror) on a snapshot of every model enum and every model class built from a wire message, and enumerates the "
        "conversion case analysis message x field x value class (ints at 0/1/max, text incl. unicode, every known enum number + an unknown one, "
        "enum lists mixing both, float32 patterns incl. ties, powers of ten, sub-normals, +-0, +-inf, NaN); each case is materialised on the real "
        "from_pb, to_dict and from_dict; distinct = distinct (model, field, value class[, enum number])"
    )
    import aioesphomeapi.model as model
    from aioesphomeapi import api_pb2
    from aioesphomeapi import model_conversions as mc

    schema = protoschema.parse_proto()
    work = ctx.tmp / "spec"
    shutil.copytree(SPEC_DIR, work)
    protoschema.emit_tla(schema, work / "ProtoSchema.tla")
    enums = []
    for n, c in inspect.getmembers(model, inspect.isclass):
        if issubclass(c, model.APIIntEnum) and c is not model.APIIntEnum:
            enums.append({"model": n, "proto": ENUM_ALIAS.get(n, n), "members": [{"n": k, "v": int(v)} for k, v in c.__members__.items()]})
    pairs = {}
    for tbl in (mc.LIST_ENTITIES_SERVICES_RESPONSE_TYPES, mc.SUBSCRIBE_STATES_RESPONSE_TYPES):
        for k, v in tbl.items():
            if v is not None:
                pairs[v.__name__] = k.__name__
    for mname, pname in EXTRA_CLASSES.items():
        if hasattr(model, mname):
            pairs.setdefault(mname, pname)
    classes = [{"model": mn, "proto": pn, "fields": [f.name for f in dataclasses.fields(getattr(model, mn))]} for mn, pn in sorted(pairs.items())]
    f = ctx.tmp / "models-obs.json"
    f.write_text(json.dumps({"enums": enums, "classes": classes}))
    r = ctx.tlc("Models", workers=1, env={"TRACE_FILE": str(f)}, spec_dir=work, timeout=900)
    seen = set()
    for tag, items in tlaval.extract_printed(r.stdout, "MISMATCH"):
        for it in items:
            sig = f"Models/{tag}/{'/'.join(str(x) for x in it)}" if isinstance(it, list) else f"Models/{tag}/{it}"
            if sig not in seen:
                seen.add(sig)
                ctx.violation(sig, {"kind": "models-table", "tag": tag, "item": it})
    ctx.evaluations += len(enums) * 3 + len(classes)
    ctx.distinct |= {("enum", e["model"]) for e in enums} | {("class", c["model"]) for c in classes}
    # compiled enum descriptors agree with the .proto text
    for en, vals in schema["enums"].items():
        d = api_pb2.DESCRIPTOR.enum_types_by_name.get(en)
        got = {v.name: v.number for v in d.values} if d is not None else None
        if got != vals:
            ctx.violation(f"Models/enum_descriptor/{en}", {"kind": "models-table", "expected": vals, "observed": got})
    # ---------------------------------------------------------- conversions
    convs = {json.dumps(c, sort_keys=True): c for c in parse_tagged(r.raw_printed, "CONV")}
    if not convs:
        raise TLCFailure("no conversion cases generated")
    ctx.exhaustive = True
    # conversion must not depend on which model classes happen to have been used before: the base classes first
    for base in ("APIModelBase", "EntityInfo", "EntityState"):
        try:
            getattr(model, base)()
        except Exception:  # noqa: BLE001 (not constructible without arguments in this version)
            pass
    for c in convs.values():
        mcls = getattr(model, c["model"])
        pcls = getattr(api_pb2, c["msg"])
        fld, kind, v, e = c["field"], c["kind"], c["v"], c["e"]
        ftype = c["type"]
        variants = [None]
        if kind in ("enum", "enum_list"):
            known = sorted(set(schema["enums"][ftype].values()))
            if v == "known_each":
                variants = known
        for var in variants:
            msg = pcls()
            try:
                if kind == "int":
                    val = {"zero": 0, "one": 1, "max": INT_MAX.get(ftype, 2**31 - 1)}[v]
                    setattr(msg, fld, val)
                elif kind == "bool":
                    setattr(msg, fld, v == "true")
                elif kind == "text":
                    t = {"empty": "", "ascii": "abc", "unicode": "zürich-€-日本"}[v]
                    setattr(msg, fld, t.encode() if ftype == "bytes" else t)
                elif kind == "float":
                    setattr(msg, fld, FLOATS[v])
                elif kind == "enum":
                    setattr(msg, fld, var if v == "known_each" else 9999)
                elif kind == "enum_list":
                    vals = [] if v == "empty" else known if v == "all_known" else [known[0], 9999, known[-1], 7777]
                    getattr(msg, fld).extend(vals)
                elif kind == "scalar_list":
                    if v == "two":
                        sample = {"string": ["a", "é"], "bytes": [b"a", b"b"], "float": [0.5, 1.5], "bool": [True, False]}.get(ftype, [1, 2])
                        getattr(msg, fld).extend(sample)
                elif kind in ("msg", "msg_list") and v == "set":
                    if kind == "msg":
                        getattr(msg, fld).SetInParent()
                    else:
                        getattr(msg, fld).add()
            except Exception as ex:  # noqa: BLE001  (harness could not build the case)
                raise TLCFailure(f"cannot build case {c}: {ex!r}") from ex
            ctx.evaluations += 1
            ctx.distinct.add((c["model"], fld, v, var))
            ctx.replayed += 1
            sig = f"Models/convert/{c['model']}.{fld}/{v}"
            try:
                m = mcls.from_pb(msg)
            except Exception as ex:  # noqa: BLE001
                ctx.violation(sig + "/raises", {"kind": "models-conv", "case": c, "error": repr(ex)})
                continue
            if not hasattr(m, fld):
                ctx.violation(f"Models/convert/{c['model']}.{fld}/missing", {"kind": "models-conv", "case": c, "error": "the model has no such field"})
                continue
            got = getattr(m, fld)
            wire = getattr(msg, fld)
            ok = True
            if e == "same":
                exp = list(wire) if kind.endswith("_list") else wire
                if ftype == "float" and kind == "scalar_list":
                    ok = list(got) == exp or [round7(x) for x in exp] == list(got)
                else:
                    ok = (list(got) if kind.endswith("_list") else got) == exp
            elif e == "float":
                w = float(wire)
                # the designated fields are a fixed list (the statement's "designated fields"): exactly these are presented
                # rounded to 7 significant digits, every other float field carries the single-precision wire value as it is
                designated = (c["model"], fld) in ROUNDED_FIELDS
                ok = same(got, round7(w)) if designated else same(got, w)
                exp = round7(w) if designated else w
            elif e == "enum_member":
                exp = var
                ok = isinstance(got, enum.IntEnum) and int(got) == var
            elif e == "enum_none":
                exp = None
                ok = got is None
            elif e == "enum_list_known":
                exp = [x for x in wire if x in known]
                ok = [int(x) for x in got] == exp and all(isinstance(x, enum.IntEnum) for x in got)
            elif e == "total":
                exp = "(no exception)"
            if not ok:
                ctx.violation(sig, {"kind": "models-conv", "case": c, "variant": var, "expected": repr(exp), "observed": repr(got)})
                continue
            # to_dict / from_dict round-trip (values compared by repr so that NaN = NaN)
            try:
                back = mcls.from_dict(m.to_dict())
                if repr(back) != repr(m):
                    ctx.violation(f"Models/roundtrip/{c['model']}.{fld}/{v}", {"kind": "models-conv", "case": c, "model": repr(m), "back": repr(back)})
            except Exception as ex:  # noqa: BLE001
                ctx.violation(f"Models/roundtrip/{c['model']}.{fld}/{v}/raises", {"kind": "models-conv", "case": c, "error": repr(ex)})
            if len(ctx.samples) < 4 and kind in ("float", "enum_list") and v in ("big_int", "mixed_unknown"):
                ctx.sample({"case": c, "wire": repr(wire), "model_value": repr(got)})
    ctx.extra["model_enums"] = len(enums)
    ctx.extra["model_classes"] = len(classes)
    ctx.extra["conversion_cases"] = len(convs)
    ctx.assumptions += [
        "which model class is built from which wire message is taken from the library's own conversion tables plus a literal list of the remaining from_pb users",
        "float expectation: exact decimal rounding (Decimal, half-even) of the float32 value to 7 significant digits; fields without a rounding converter may show the exact float32 value",
        "nested / repeated sub-messages: conversion must not fail (their own fields are covered where the sub-message has a model class in the tables)",
    ]


def replay(ctx, case):
    run(ctx)
