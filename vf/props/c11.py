"""C11 - request/response calls get exactly their responses and leave nothing behind."""

from vf.props import conn_common


def run(ctx):
    ctx.rule = (
        "TLC: CallResultExact (result = accepted arrivals after the request up to the first stop, from the arrival history), "
        "CallLeavesNothing, CallTimeoutExact over <= 3 concurrent calls (single / list-until-done / filter-by-key), arrivals, cancellations, "
        "timeouts, closes; calls next to subscribers on the same types (unsubscribe functions called twice); schedules: one per distinct quiescent state of the calls slice + random stories with calls; the handler table size, "
        "the waiter set size and the whole timer heap are part of every validated row; distinct = distinct schedule"
    )

    def build(ctx, rng):
        gen = conn_common.tlc_schedules(ctx, "MC_Connection_calls_gen.cfg", 3000 if ctx.quick else 60000, rng, connected=True)
        rnd = conn_common.random_family(rng, 1500 if ctx.quick else 20000, 0.08, calls=True, subs=False, max_events=10)
        from vf import connsim

        return {"calls_tlc": gen, "calls_random": rnd, "calls_neighbours": connsim.c11_neighbours_family()}

    mc = [("MC_Connection_calls.cfg", {})] + ([] if ctx.quick else [("MC_Connection_calls2.cfg", {})])
    conn_common.dedicated(ctx, "c11", mc, build)
    conn_common.run_general_property(ctx)
    # the request-response calls of the API above the connection (Bluetooth operations): each ends exactly at the
    # time-out IT was given and leaves no handler / timer behind - timer heap and handler count of every row
    from vf import sessionsim
    from vf.props import sess_common
    import random

    cross, special = sessionsim.c16_systematic()
    rs = random.Random(ctx.seed + 11)
    cases = [(sess_common.CFGS[i % 2], s) for i, s in enumerate(special + rs.sample(cross, min(len(cross), 300 if ctx.quick else 3000)))]
    res = sess_common.run_family(ctx, "ble_calls", cases)
    ctx.evaluations += res["n"]
    ctx.distinct |= {("ble_calls", i) for i in range(res["n"])}
    ctx.extra["reached_ble_calls"] = res["reach"]
    for f in res["findings"]:
        if set(f["fields"]) & {"tm", "skipped_timer", "nh", "hang", "dn", "not_enabled"}:   # (dn: a call ended with another call's response)
            ctx.violation(f"Session/ble_calls/{f['cause']}/{'+'.join(f['fields'])}", {"kind": "session-trace", "family": "ble_calls", **f})
        else:
            ctx.notes.append(f"operation-table mismatch (C16) seen in family ble_calls: {f['fields']}")
    ctx.notes[:] = sorted(set(ctx.notes))[:20]


def replay(ctx, case):
    if case.get("kind") == "session-trace":
        from vf.props import sess_common

        sess_common.replay(ctx, case)
        return
    conn_common.replay_case(ctx, case)
