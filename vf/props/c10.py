"""C10 - keep-alive: ping only when idle; silent peer dropped in [5.5K, 6.5K]; live never."""

from vf import connsim
from vf.props import conn_common


def run(ctx):
    ctx.rule = (
        "TLC: PingIffIdle, DeathExact (action properties), NoLateDeath, PongTimerOnlyAfterSilentPing, PongTimerExact, DeathWindow, "
        "SilentPeerDropped on the K/4 grid to 10K, message and timer at one instant in both orders; schedules: one per distinct quiescent "
        "state of that slice + random arrival schedules on a K/16 grid for K in {0.5,4,15,20,60}s over up to 200 periods with client-side "
        "sends that must not count as signs of life; every ping / death instant (virtual ms) is a trace row validated by TLC; distinct = distinct schedule"
    )

    def build(ctx, rng):
        gen = conn_common.tlc_schedules(ctx, "MC_Connection_keepalive_gen.cfg", 1500 if ctx.quick else None, rng, connected=True)
        return {"ka_tlc": gen, "ka_random": connsim.c10_family(ctx.quick, rng, 250 if ctx.quick else 3000)}

    conn_common.dedicated(ctx, "c10", [("MC_Connection_keepalive.cfg", {})], build)
    ctx.assumptions += [
        "a message and a timer due at the same instant may run in either order (both are explored); hence the detection window is closed at 5.5K for that tie",
        "virtual time in integer milliseconds",
    ]


def replay(ctx, case):
    conn_common.replay_case(ctx, case)
