"""Shared driver for the Session.tla properties (C16, C17)."""

from __future__ import annotations

import json
import logging
import re

from vf import sessionsim, tlaval
from vf.tlc import TLCFailure

CFGS = [dict(noise=False, login=False), dict(noise=True, login=False)]


def run_family(ctx, name: str, cases: list) -> dict:
    """cases: [(cfg, schedule)] -> executed on the real client, validated by TraceSession.tla"""
    logging.disable(logging.CRITICAL)
    from vf import watchdog

    traces, findings, kept = [], [], []
    cases = [(dict(cfg, debug=True) if i % 3 == 2 else cfg, sch) for i, (cfg, sch) in enumerate(cases)]
    for i, (cfg, sch) in enumerate(cases):
        try:
            with watchdog.limit(90, "schedule"):
                traces.append(sessionsim.run_schedule(cfg, sch, seed=ctx.seed * 104729 + i))
            kept.append((cfg, sch))
        except watchdog.Hang:
            findings.append({"fields": ["hang"], "cause": "hang", "cfg": cfg, "schedule": sch, "line": 0, "rows": []})
    cases = kept
    from vf import tracecheck

    res = tracecheck.run_batch(ctx, "TraceSession", [{"rows": t["rows"]} for t in traces], batch=2000, tag=name)
    for idx, line in res["rejected"]:
        t = traces[idx]
        ds = res["diags"].get((idx, line), [])
        fields = sorted(min(ds, key=len)) if ds else ["unexplained"]
        row = t["rows"][line - 1] if line - 1 < len(t["rows"]) else {}
        findings.append({"fields": fields, "cause": row.get("c"), "cfg": cases[idx][0], "schedule": cases[idx][1], "line": line, "rows": t["rows"][max(0, line - 6) : line]})
    for idx, invname in res["invariant"]:
        findings.append({"fields": ["invariant:" + invname], "cause": "invariant", "cfg": cases[idx][0], "schedule": cases[idx][1], "line": 0, "rows": traces[idx]["rows"][-6:]})
    reach = {
        "ops_ok": sum(1 for t in traces for r in t["rows"] for d in r["dn"] if d[1] == "ok"),
        "ops_gatt_error": sum(1 for t in traces for r in t["rows"] for d in r["dn"] if d[1] == "BluetoothGATTAPIError"),
        "ops_dropped": sum(1 for t in traces for r in t["rows"] for d in r["dn"] if d[1] == "BluetoothConnectionDroppedError"),
        "ops_timeout": sum(1 for t in traces for r in t["rows"] for d in r["dn"] if d[1] == "TimeoutAPIError"),
        "ops_cancelled": sum(1 for t in traces for r in t["rows"] for d in r["dn"] if d[1] == "Cancelled"),
        "callbacks": sum(len(r["cb"]) for t in traces for r in t["rows"]),
        "camera_images": sum(1 for t in traces for r in t["rows"] for c in r["cb"] if c[1] == "Camera"),
        "va_responses": sum(1 for t in traces for r in t["rows"] for w in r["w"] if w.startswith("VoiceAssistantResponse")),
        "skipped_events": sum(t["skipped"] for t in traces),
    }
    return {"n": len(cases), "rows": sum(len(t["rows"]) for t in traces), "findings": findings, "reach": reach}


def run_families(ctx, fams: dict) -> None:
    for name, cases in fams.items():
        res = run_family(ctx, name, cases)
        ctx.evaluations += res["n"]
        ctx.distinct |= {(name, i) for i in range(res["n"])}
        ctx.extra[f"reached_{name}"] = res["reach"]
        ctx.extra[f"rows_{name}"] = res["rows"]
        if cases:
            ctx.sample({f"{name}_schedule": cases[len(cases) // 2][1][:12]})
        for f in res["findings"]:
            ctx.violation(f"Session/{name}/{f['cause']}/{'+'.join(f['fields'])}", {"kind": "session-trace", "family": name, **f})


def replay(ctx, case):
    res = run_family(ctx, "replay", [(case["cfg"], [tuple(x) if not isinstance(x, tuple) else x for x in case["schedule"]])])
    for f in res["findings"]:
        print("  unexplained row", f["line"], "fields", f["fields"])
        ctx.violation(case["sig"], {"kind": "session-trace", **f})


def tlc_histories(ctx, cfg_file: str, limit, rng) -> list:
    """Histories printed by a GenMode run of MC_Session (one per distinct state, shortest first) as schedules."""
    from vf.tlc import TLCFailure, parse_tagged

    r = ctx.tlc("MC_Session", cfg_file, workers=1, timeout=3000)
    hists = parse_tagged(sorted(set(r.raw_printed)), "SCHED")
    if len(hists) < 1000:
        raise TLCFailure(f"{cfg_file} printed only {len(hists)} histories")
    ctx.extra["tlc_generated_histories"] = len(hists)
    if limit is not None and len(hists) > limit:
        hists = rng.sample(hists, limit)
    return [(CFGS[i % 2], sessionsim.tokens_to_schedule(h, i)) for i, h in enumerate(hists)]
