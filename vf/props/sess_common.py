"""Shared driver for the Session.tla properties (C16, C17)."""

from __future__ import annotations

import json
import logging
import re

from vf import sessionsim, tlaval
from vf.tlc import TLCFailure

CFGS = [dict(noise=False, login=False), dict(noise=True, login=False)]


def run_family(ctx, name: str, cases: list) -> dict:
    """cases: [(cfg, schedule)] -> executed on the real client, validated by TraceSession.tla"""
    logging.disable(logging.CRITICAL)
    traces = [sessionsim.run_schedule(cfg, sch, seed=ctx.seed * 104729 + i) for i, (cfg, sch) in enumerate(cases)]
    findings = []
    for off in range(0, len(traces), 2000):
        part = traces[off : off + 2000]
        f = ctx.tmp / f"sess-{name}-{off}.json"
        f.write_text(json.dumps([{"rows": t["rows"]} for t in part]))
        r = ctx.tlc("TraceSession", workers=1, env={"TRACE_FILE": str(f)}, timeout=3000)
        if "Model checking completed" not in r.stdout:
            raise TLCFailure("trace validation did not complete:\n" + r.stdout[-3000:])
        f.unlink()
        diags = {(d[0] - 1, d[1]): d[2] for d in tlaval.extract_printed(r.stdout, "DIAG")}
        ctx.traces_validated += len(part)
        for a, b in re.findall(r'<<"REJECT", (\d+), (\d+)>>', r.stdout):
            idx, line = int(a) - 1, int(b)
            t = part[idx]
            ds = diags.get((idx, line), [])
            fields = sorted(min(ds, key=len)) if ds else ["unexplained"]
            row = t["rows"][line - 1] if line - 1 < len(t["rows"]) else {}
            findings.append({"fields": fields, "cause": row.get("c"), "cfg": cases[off + idx][0], "schedule": cases[off + idx][1], "line": line,
                             "rows": t["rows"][max(0, line - 6) : line]})
    reach = {
        "ops_ok": sum(1 for t in traces for r in t["rows"] for d in r["dn"] if d[1] == "ok"),
        "ops_gatt_error": sum(1 for t in traces for r in t["rows"] for d in r["dn"] if d[1] == "BluetoothGATTAPIError"),
        "ops_dropped": sum(1 for t in traces for r in t["rows"] for d in r["dn"] if d[1] == "BluetoothConnectionDroppedError"),
        "ops_timeout": sum(1 for t in traces for r in t["rows"] for d in r["dn"] if d[1] == "TimeoutAPIError"),
        "ops_cancelled": sum(1 for t in traces for r in t["rows"] for d in r["dn"] if d[1] == "Cancelled"),
        "callbacks": sum(len(r["cb"]) for t in traces for r in t["rows"]),
        "camera_images": sum(1 for t in traces for r in t["rows"] for c in r["cb"] if c[1] == "Camera"),
        "va_responses": sum(1 for t in traces for r in t["rows"] for w in r["w"] if w.startswith("VoiceAssistantResponse")),
        "skipped_events": sum(t["skipped"] for t in traces),
    }
    return {"n": len(cases), "rows": sum(len(t["rows"]) for t in traces), "findings": findings, "reach": reach}


def run_families(ctx, fams: dict) -> None:
    for name, cases in fams.items():
        res = run_family(ctx, name, cases)
        ctx.evaluations += res["n"]
        ctx.distinct |= {(name, i) for i in range(res["n"])}
        ctx.extra[f"reached_{name}"] = res["reach"]
        ctx.extra[f"rows_{name}"] = res["rows"]
        if cases:
            ctx.sample({f"{name}_schedule": cases[len(cases) // 2][1][:12]})
        for f in res["findings"]:
            ctx.violation(f"Session/{name}/{f['cause']}/{'+'.join(f['fields'])}", {"kind": "session-trace", "family": name, **f})


def replay(ctx, case):
    res = run_family(ctx, "replay", [(case["cfg"], [tuple(x) if not isinstance(x, tuple) else x for x in case["schedule"]])])
    for f in res["findings"]:
        print("  unexplained row", f["line"], "fields", f["fields"])
        ctx.violation(case["sig"], {"kind": "session-trace", **f})
