"""C20 - address resolution order and fallbacks; zeroconf instances are owned correctly."""

import json
import logging
import re

from vf import resolvesim
from vf.tlc import TLCFailure, parse_tagged


def run(ctx):
    logging.disable(logging.CRITICAL)
    ctx.rule = (
        "TLC enumerates every list of <= 2 configured addresses over the full alphabet (8 forms x mDNS outcome x OS outcome: 10 100 lists) and "
        "of 3 over a reduced one (1 000), evaluates the decision procedure of Resolver.tla (look-ups performed, ordered result, error) and its "
        "properties (literals never looked up, order kept, never empty); each case replayed into the real async_resolve_host with fakes for "
        "zeroconf and getaddrinfo and compared; ownership: invariants model-checked, every operation sequence of length <= 6 executed on the real "
        "ZeroconfManager / _async_zeroconf_get_service_info and validated as a trace; distinct = distinct case / operation sequence; "
        "LogName.tla: classification of addresses (bare / .local / other) and the log name, TLC-enumerated, compared with util's functions"
    )
    ctx.exhaustive = True
    for cfg in ["MC_Resolver_cases2.cfg", "MC_Resolver_cases3.cfg"]:
        r = ctx.tlc("MC_Resolver", cfg, workers=1, timeout=1200)
        cases = parse_tagged(r.raw_printed, "CASE")
        if not cases:
            raise TLCFailure("no cases generated")
        for c in cases:
            hosts, exp = c["hosts"], c["exp"]
            got = resolvesim.run_case(hosts)
            ctx.replayed += 1
            key = json.dumps(hosts, sort_keys=True)
            ctx.case(key)
            forms = "+".join(h["form"] for h in hosts)
            if got["err"] != exp["err"]:
                ctx.violation(f"Resolver/error/{forms}/{exp['err']}->{got['err']}", {"kind": "resolve", "hosts": hosts, "expected": exp, "observed": got})
                continue
            if [list(x) for x in exp["lookups"]] != got["lookups"]:
                ctx.violation(f"Resolver/lookups/{forms}", {"kind": "resolve", "hosts": hosts, "expected": exp, "observed": got})
                continue
            if exp["err"] == "none":
                want = resolvesim.expected_addrs(hosts, exp, got["names"])
                if want != got["addrs"]:
                    ctx.violation(f"Resolver/result/{forms}", {"kind": "resolve", "hosts": hosts, "expected": want, "observed": got})
                    continue
            if got["created_open"]:
                ctx.violation(f"Resolver/instance_left_open/{forms}", {"kind": "resolve", "hosts": hosts, "observed": got})
        if len(ctx.samples) < 3:
            ctx.sample({"hosts": cases[len(cases) // 2]["hosts"], "expected": cases[len(cases) // 2]["exp"]})
    # ownership
    ctx.tlc("MC_Resolver", "MC_Resolver_own.cfg", coverage=True, timeout=600)
    seqs = list(resolvesim.all_op_sequences(5 if ctx.quick else 7))
    traces = [resolvesim.run_ownership(s) for s in seqs]
    f = ctx.tmp / "own.json"
    f.write_text(json.dumps(traces))
    r = ctx.tlc("TraceResolver", workers=1, env={"TRACE_FILE": str(f)}, timeout=1200)
    if "Model checking completed" not in r.stdout:
        raise TLCFailure("trace validation did not complete:\n" + r.stdout[-3000:])
    ctx.traces_validated += len(traces)
    for a, b in re.findall(r'<<"REJECT", (\d+), (\d+)>>', r.stdout):
        idx, line = int(a) - 1, int(b)
        ctx.violation(f"Ownership/{'-'.join(seqs[idx][:line])}", {"kind": "ownership", "ops": list(seqs[idx]), "line": line, "rows": traces[idx]})
    for s in seqs:
        ctx.case("own:" + "-".join(s))
    ctx.sample({"ownership_ops": list(seqs[len(seqs) // 2]), "rows": traces[len(seqs) // 2]})
    # ownership in use: the reconnect manager (no instance supplied) creates a zeroconf instance when it first listens
    # for mDNS records and closes it when it is stopped - whatever happened in between (Reconnect.tla zc_new / zc_close)
    import random

    from vf import reconsim
    from vf.props import c18

    rng = random.Random(ctx.seed + 20)
    sysf = reconsim.systematic()
    cases = sysf[:8] + rng.sample(sysf[8:], min(len(sysf) - 8, 300 if ctx.quick else 3000)) + [reconsim.random_story(rng, rng.randrange(2, 14)) for _ in range(300 if ctx.quick else 5000)]
    res = c18.run_family(ctx, "manager_zeroconf", cases)
    ctx.evaluations += res["n"]
    ctx.distinct |= {("manager_zeroconf", i) for i in range(res["n"])}
    ctx.extra["reached_manager_zeroconf"] = res["reach"]
    for f in res["findings"]:
        evs = {r["e"][0] for r in f["rows"][-3:]} | {f["event"]}
        if evs & {"zc_new", "zc_close", "zc_add", "zc_remove", "stop_ret"}:
            ctx.violation(f"Reconnect/manager_zeroconf/{f['event']}", {"kind": "recon-trace", "family": "manager_zeroconf", **f})
        else:
            ctx.notes.append(f"manager mismatch outside C20 ({f['event']}) seen in family manager_zeroconf")
    # the classification of configured addresses (bare / .local / other) that the resolution order rests on, and the
    # log name built from it (LogName.tla: TLC enumerates name x addresses x connected address, the real util functions
    # are called on the rendered strings).  A wrong class of an unambiguous address is C20's business; the log name is not.
    from vf import lognamesim

    lres = lognamesim.run(ctx)
    ctx.evaluations += lres["n"]
    ctx.distinct |= {("logname", i) for i in range(lres["n"])}
    ctx.extra["logname_cases"] = {"build_log_name": lres["cases"], "classification": lres["classes"], "mismatches": len(lres["mismatches"])}
    for m in lres["mismatches"]:
        if m["kind"] == "class" and not m["addr"].endswith("."):
            ctx.violation(f"LogName/class/{m['addr']}", {"kind": "logname", **m})
        else:
            ctx.notes.append(f"util.{'build_log_name' if m['kind'] == 'logname' else 'classification'} deviates from LogName.tla (outside the listed properties), e.g. {json.dumps(m)[:200]}")
            break
    ctx.notes[:] = sorted(set(ctx.notes))[:20]
    ctx.assumptions += [
        "a non-numeric IPv6 scope id maps to 0; an OS-resolver error for one host aborts the whole resolution with a connection error",
        "fakes stand in for zeroconf's AsyncServiceInfo / AsyncZeroconf and for loop.getaddrinfo",
    ]


def replay(ctx, case):
    if case.get("kind") == "recon-trace":
        from vf.props import c18

        c18.replay(ctx, case)
        return
    if case.get("kind") == "logname":
        from aioesphomeapi import util

        print(case["addr"], util.host_is_name_part(case["addr"]), util.address_is_local(case["addr"]), "expected", case["expected"])
    elif case.get("kind") == "ownership":
        rows = resolvesim.run_ownership(tuple(case["ops"]))
        print(rows)
    else:
        print(resolvesim.run_case(case["hosts"]))
    run(ctx)
