"""Parser for TLA+ values as TLC prints them (PrintT, error traces)."""

from __future__ import annotations


class _P:
    def __init__(self, s: str):
        self.s = s
        self.i = 0

    def ws(self):
        s = self.s
        while self.i < len(s) and s[self.i] in " \t\r\n":
            self.i += 1

    def peek(self, tok: str) -> bool:
        self.ws()
        return self.s.startswith(tok, self.i)

    def eat(self, tok: str) -> None:
        self.ws()
        if not self.s.startswith(tok, self.i):
            raise ValueError(f"expected {tok!r} at {self.i}: {self.s[self.i:self.i+40]!r}")
        self.i += len(tok)

    def value(self):
        self.ws()
        s = self.s
        c = s[self.i]
        if s.startswith("<<", self.i):
            self.i += 2
            out = []
            if self.peek(">>"):
                self.eat(">>")
                return out
            while True:
                out.append(self.value())
                if self.peek(","):
                    self.eat(",")
                    continue
                self.eat(">>")
                return out
        if c == "{":
            self.i += 1
            out = []
            if self.peek("}"):
                self.eat("}")
                return out
            while True:
                out.append(self.value())
                if self.peek(","):
                    self.eat(",")
                    continue
                self.eat("}")
                return out
        if c == "[":
            self.i += 1
            rec = {}
            while True:
                self.ws()
                j = self.i
                while s[self.i].isalnum() or s[self.i] == "_":
                    self.i += 1
                key = s[j : self.i]
                self.eat("|->")
                rec[key] = self.value()
                if self.peek(","):
                    self.eat(",")
                    continue
                self.eat("]")
                return rec
        if c == "(":  # function printed as (a :> b @@ c :> d)
            self.i += 1
            fn = {}
            while True:
                k = self.value()
                self.eat(":>")
                fn[k if not isinstance(k, list) else tuple(k)] = self.value()
                if self.peek("@@"):
                    self.eat("@@")
                    continue
                self.eat(")")
                return fn
        if c == '"':
            self.i += 1
            out = []
            while s[self.i] != '"':
                if s[self.i] == "\\":
                    self.i += 1
                out.append(s[self.i])
                self.i += 1
            self.i += 1
            return "".join(out)
        if s.startswith("TRUE", self.i):
            self.i += 4
            return True
        if s.startswith("FALSE", self.i):
            self.i += 5
            return False
        j = self.i
        if c == "-":
            self.i += 1
        while self.i < len(s) and s[self.i].isdigit():
            self.i += 1
        if j == self.i:
            # model value / identifier
            while self.i < len(s) and (s[self.i].isalnum() or s[self.i] == "_"):
                self.i += 1
            if j == self.i:
                raise ValueError(f"cannot parse at {j}: {s[j:j+40]!r}")
            return s[j : self.i]
        return int(s[j : self.i])


def parse(s: str):
    p = _P(s)
    v = p.value()
    p.ws()
    if p.i != len(s):
        raise ValueError(f"trailing text at {p.i}: {s[p.i:p.i+40]!r}")
    return v


def extract_printed(out: str, tag: str) -> list:
    """All values printed as <<"tag", ...>> (possibly spanning lines) -> parsed lists (without the tag)."""
    res = []
    import re

    marker = re.compile(r'^<<\s*"' + re.escape(tag) + '"')
    lines = out.split("\n")
    i = 0
    n = len(lines)
    while i < n:
        ln = lines[i]
        if marker.match(ln):
            buf = ln
            depth = _depth(buf)
            while depth > 0 and i + 1 < n:
                i += 1
                buf += "\n" + lines[i]
                depth += _depth(lines[i])
            res.append(parse(buf)[1:])
        i += 1
    return res


def _depth(s: str) -> int:
    d = 0
    instr = False
    i = 0
    while i < len(s):
        c = s[i]
        if instr:
            if c == "\\":
                i += 1
            elif c == '"':
                instr = False
        elif c == '"':
            instr = True
        elif s.startswith("<<", i):
            d += 1
            i += 1
        elif s.startswith(">>", i):
            d -= 1
            i += 1
        i += 1
    return d
