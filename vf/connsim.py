"""Run environment schedules on the real APIConnection and record trace rows
for TraceConnection.tla."""

from __future__ import annotations

import asyncio
import random

from .world import World, msg_id, pb

REQ_FOR_CALL = {"c1": "ListEntitiesRequest", "c2": "SubscribeStatesRequest", "c3": "DeviceInfoRequest"}
NAME_TO_REQ = {v: "Req:" + k for k, v in REQ_FOR_CALL.items()}

GARBAGE = b"\x0a\xff\x01"


def device_message(m: dict) -> tuple[int, bytes]:
    k = m["k"]
    if k == "hello":
        return msg_id("HelloResponse"), pb("HelloResponse", api_version_major=m["major"], api_version_minor=m.get("minor", 10), name=m["name"], server_info="sim").SerializeToString()
    if k == "connect":
        return msg_id("ConnectResponse"), pb("ConnectResponse", invalid_password=m["invalid"]).SerializeToString()
    if k == "discreq":
        return msg_id("DisconnectRequest"), b""
    if k == "discresp":
        return msg_id("DisconnectResponse"), b""
    if k == "pingreq":
        return msg_id("PingRequest"), b""
    if k == "pingresp":
        return msg_id("PingResponse"), b""
    if k == "timereq":
        return msg_id("GetTimeRequest"), b""
    if k == "A":
        return msg_id("SensorStateResponse"), pb("SensorStateResponse", key=m["key"], state=1.5).SerializeToString()
    if k == "B":
        return msg_id("BinarySensorStateResponse"), pb("BinarySensorStateResponse", key=m.get("key", 0) or 7, state=True).SerializeToString()
    if k == "done":
        return msg_id("ListEntitiesDoneResponse"), b""
    if k == "unknown":
        return m.get("id", 200), b"\x08\x01"
    if k == "garbage":
        return (msg_id(m["cls"]) if m.get("cls") else msg_id("SensorStateResponse")), GARBAGE
    if k == "raw":  # a frame with an explicit type id (id sweeps); the specification sees kind m["as"]
        return m["id"], PAYLOADS[m.get("pl", "empty")]
    if msg_id(k) is not None:  # any other message of the protocol, by its api.proto name
        if "pb" in m:
            return msg_id(k), pb(k, **m["pb"]).SerializeToString()
        return msg_id(k), PAYLOADS[m.get("pl", "empty")]
    raise ValueError(k)


# payload classes that mean the same for every message type
PAYLOADS = {
    "empty": b"",
    "unkf": b"\xc0\x3e\x01",  # field 1000, varint 1: decodable everywhere, an unknown field
    "bad": b"\xc2\x3e\xff\x01",  # field 1000, length-delimited, 255 bytes announced, none present
}


def full_msg(m: dict) -> dict:
    """Uniform record shape for TLC."""
    k = m["k"]
    if k == "raw":
        k = m["as"]
    return {"k": k, "major": m.get("major", 0), "name": m.get("name", ""), "invalid": m.get("invalid", False), "key": m.get("key", 0), "id": m.get("id", 0)}


KIND_CLASS = {"A": "SensorStateResponse", "B": "BinarySensorStateResponse", "done": "ListEntitiesDoneResponse"}
SHORT = {"SensorStateResponse": "A", "BinarySensorStateResponse": "B", "ListEntitiesDoneResponse": "done", "HelloResponse": "hello",
         "ConnectResponse": "connect", "DisconnectRequest": "discreq", "DisconnectResponse": "discresp", "PingRequest": "pingreq",
         "PingResponse": "pingresp", "GetTimeRequest": "timereq"}


def kind_of_name(name: str) -> str:
    """Kind string the specification uses for a message of the protocol."""
    return SHORT.get(name, name)


class ConnRun:
    def __init__(self, cfg: dict, seed: int = 0):
        self.cfg = cfg
        self.w = World(
            seed=seed,
            noise=cfg["noise"],
            expected_name=None if cfg["exp"] == "none" else cfg["exp"],
            password="pw" if cfg.get("password") else None,
            keepalive=cfg["K"] / 1000.0,
            dev_name="dev",
            naddr=cfg.get("naddr", 1),
            debug=bool(cfg.get("debug")),
        )
        self.loop = self.w.loop
        self.rows: list[dict] = []
        self.cur = None  # (cause, args) of the env callback being run
        self.last_proj = None
        self.sub_unsubs: dict[int, callable] = {}
        self.call_tasks: dict[str, asyncio.Task] = {}
        self.loop.after_callback = self._after_callback
        self.last_proj = self._proj()
        self.harness_errors: list[str] = []
        self.skipped = 0  # injected events whose precondition did not hold (nothing happened)

    # ------------------------------------------------------------ projection
    def _proj(self):
        w = self.w
        made = bool(w.tr is not None and w.tr._protocol_connected)
        # a wildcard subscription (one callback for every message class) counts as one handler
        seen_wild: set = set()
        nh = 0
        for v in w.conn._message_handlers.values():
            for cb in v:
                if getattr(cb, "_verif_wild", False):
                    seen_wild.add(id(cb))
                else:
                    nh += 1
        nh += len(seen_wild)
        nw = len(w.conn._read_exception_futures)
        return (w.conn_state(), bool(w.conn.is_connected), w.sock_state(), w.tr_state(), tuple(w.stops), tuple(w.timers_ms()), made, nh, nw)

    def _log(self, cause: str, args: dict, idle: bool = False, force: bool = False) -> None:
        w = self.w
        writes, deliv, _ = w.drain_step()
        # subscribers of ONE message are called in arbitrary (set) order: normalise per message
        groups: list[list] = []
        for dlv in deliv:
            if groups and groups[-1][0][2] is dlv[2]:
                groups[-1].append(dlv)
            else:
                groups.append([dlv])
        deliv = [[g[0], g[1]] for grp in groups for g in sorted(grp, key=lambda g: (g[0], g[1]))]
        done = []
        for op in w.poll_ops():
            res = []
            if op.outcome == "ok" and op.base in REQ_FOR_CALL:
                res = [getattr(m, "key", 0) if type(m).__name__ == "SensorStateResponse" else 0 for m in op.result]
            done.append([op.base, op.outcome, res])
        p = self._proj()
        changed = p != self.last_proj or writes or deliv or done
        if cause == "int" and not changed and not force:
            return
        if cause == "idle" and self.rows and self.rows[-1]["c"] == "idle" and not changed and self.rows[-1]["t"] == w.now_ms():
            return
        self.last_proj = p
        self.rows.append(
            {
                "c": cause,
                "a": args,
                "t": w.now_ms(),
                "cs": p[0],
                "ic": p[1],
                "sock": p[2],
                "tr": p[3],
                "sa": list(p[4]),
                "pm": p[6],
                "nh": p[7],
                "nw": p[8],
                "q": idle,
                "tm": list(p[5]) if idle else [],
                "w": [NAME_TO_REQ.get(n, n) for n in writes],
                "d": deliv,
                "dn": done,
            }
        )

    def _after_callback(self, handle) -> None:
        if self.cur is not None:
            cause, args = self.cur
            self.cur = None
            self._log(cause, args)
        else:
            # a timer callback is always a row of its own (it may only fail a future, which
            # shows later, when the task resumes)
            self._log("int", {}, force=isinstance(handle, asyncio.TimerHandle))

    # ------------------------------------------------------------- injection
    def inject(self, cause: str, args: dict, fn) -> None:
        """Schedule an environment / user event as a loop callback."""

        def cb():
            ok = fn()
            if ok is not False:
                self.cur = (cause, args)
            else:
                self.skipped += 1

        self.loop.call_soon(cb)

    def spawn(self, name: str, coro):
        task = asyncio.Task(coro, loop=self.loop, eager_start=True)
        from .world import Op

        key = name
        while key in self.w.ops:
            key += "'"
        op = Op(key, task, self.loop.time())
        op.base = name
        self.w.ops[key] = op
        return task

    # ---------------------------------------------------------------- events
    def _pending(self, name: str) -> bool:
        return any(getattr(op, "base", k) == name and not op.task.done() for k, op in self.w.ops.items())

    def ev_start(self):
        def fn():
            if self._pending("start"):
                return False  # two concurrent attempts on one object are outside the domain
            self.spawn("start", self.w.conn.start_connection())

        self.inject("UserStart", {}, fn)

    def ev_resolve(self, res: str):
        w = self.w
        if res == "ok":
            self.inject("EnvResolve", {"res": "ok"}, w.resolve_ok)
        else:
            self.inject("EnvResolve", {"res": "ResolveAPIError"}, w.resolve_err)

    def ev_tcp(self, res: str):
        w = self.w
        if res == "ok":
            self.inject("EnvTcp", {"res": "ok"}, w.tcp_ok)
        elif res == "okbad":  # connected, but the peer resets at once: configuring the socket fails
            self.inject("EnvTcp", {"res": "okbad"}, lambda: w.tcp_ok(broken=True))
        else:
            self.inject("EnvTcp", {"res": "SocketAPIError"}, w.tcp_err)

    def ev_finish(self, login: bool):
        def fn():
            if self._pending("finish") or "start" not in self.w.ops or self.w.ops["start"].outcome != "ok":
                # finish_connection is only defined after a successful start_connection; a second call (once the first
                # has ended) must be refused - the object serves one connect attempt
                return False
            self.spawn("finish", self.w.conn.finish_connection(login=login))

        self.inject("UserFinish", {"login": login}, fn)

    def ev_handshake(self, res: str, extra: list | None = None):
        """extra: application messages the device sends in the SAME chunk as its handshake reply"""
        w = self.w
        extra = extra or []

        def fn():
            c, tr = w.codec, w.tr
            if c is None or not c.noise or tr is None or not tr.can_receive() or c.client_hs_body is None or c.nd.handshake_done or getattr(c, "hs_sent", False):
                return False
            c.hs_sent = True
            if res == "ok":
                # the server hello may or may not announce the device name
                data = (c.noise_hello(name_override=None) if getattr(self, "noise_noname", False) else c.noise_hello()) + c.noise_handshake()
                data += b"".join(c.encode(*device_message(m)) for m in extra)
            elif res == "BadNameAPIError":
                if w.params.expected_name is None:
                    return False
                data = c.noise_hello(name_override=getattr(self, "noise_badname", "oth"))
            elif res == "InvalidEncryptionKeyAPIError":
                data = c.noise_hello() + c.nd.handshake_error_frame("Handshake MAC failure")
            else:
                data = c.noise_hello() + c.nd.handshake_error_frame("Internal error")
            return tr.feed(data)

        self.inject("EnvHandshake", {"res": res, "ms": [full_msg(m) for m in extra] if res == "ok" else []}, fn)

    def ev_chunk(self, ms: list[dict]):
        w = self.w

        def fn():
            c, tr = w.codec, w.tr
            if c is None or tr is None or not tr.can_receive():
                return False
            if c.noise and not c.nd.handshake_done:
                return False
            return w.send_msgs([device_message(m) for m in ms])

        self.inject("EnvChunk", {"ms": [full_msg(m) for m in ms]}, fn)

    def ev_eof(self):
        self.inject("EnvEof", {}, self.w.eof)

    def ev_shortframe(self, n: int = 1):
        """Noise: a frame that authenticates but is too short (0 or 1 byte) to carry even the type: the helper chokes on it, the
        exception escapes data_received and asyncio drops the transport - for the connection a read failure like any other."""
        w = self.w

        def fn():
            c, tr = w.codec, w.tr
            if n > 1 or c is None or not c.noise or tr is None or not tr.can_receive() or not c.nd.handshake_done:
                return False  # (2 or 3 bytes of plaintext still carry a type: such a frame is a message of that type)
            fh = getattr(w.conn, "_frame_helper", None)
            if fh is None or getattr(fh, "_state", 0) != 3:  # the client must have completed the handshake as well
                return False
            return tr.feed(c.nd.short_frame(n))

        self.inject("EnvReset", {"f": "oserr"}, fn)

    def ev_reset(self, flavor: str | None = None):
        """recv() fails.  flavor: reset | timedout | oserr (None: drawn from the run's seed)"""
        w = self.w
        f = flavor or w.rng.choice(("reset", "reset", "timedout", "oserr", "oserr2"))
        args = {"f": "oserr" if f == "oserr2" else f}

        def fn():
            # keep the Noise abstraction exact: not between hello and handshake
            return w.reset_as(f)

        self.inject("EnvReset", args, fn)

    def ev_junk(self, cls: str):
        w = self.w

        def fn():
            if w.noise:
                return False
            first = b"\x01" if cls == "RequiresEncryptionAPIError" else b"\x02"
            # the offending first byte alone, or with more bytes behind it
            return w.chunk(first + (b"" if self.w.rng.random() < 0.5 else b"\x00\x00"))

        self.inject("EnvJunk", {"cls": cls}, fn)

    def ev_disconnect(self):
        def fn():
            if "disconnect" in self.w.ops:
                return False
            self.spawn("disconnect", self.w.conn.disconnect())

        self.inject("UserDisconnect", {}, fn)

    def ev_force(self):
        self.inject("UserForce", {}, lambda: self.w.conn.force_disconnect())

    def ev_writefail(self, b: bool):
        exc = self.w.rng.choice([OSError(32, "broken pipe"), ConnectionResetError(104, "reset"), RuntimeError("unable to perform operation on closed transport")])
        self.inject("SetWriteFail", {"b": b}, lambda: self.w.set_write_failure(exc if b else None))

    def ev_call(self, id_: str, mode: str, key: int):
        conn = self.w.conn

        def fn():
            if id_ in self.call_tasks:
                return False
            from aioesphomeapi import api_pb2

            req = getattr(api_pb2, REQ_FOR_CALL[id_])()
            A, B, D = (getattr(api_pb2, KIND_CLASS[k]) for k in ("A", "B", "done"))
            if mode == "single":
                # the single-response API most callers use (it unpacks exactly one response)
                async def single():
                    return [await conn.send_message_await_response(req, B, timeout=10.0)]

                coro = single()
            elif mode == "list":
                coro = conn.send_messages_await_response_complex((req,), lambda m: type(m) is not D, lambda m: type(m) is D, (A, D), 10.0)
            else:
                coro = conn.send_messages_await_response_complex((req,), lambda m: m.key == key, lambda m: m.key == key, (A,), 10.0)
            self.call_tasks[id_] = self.spawn(id_, coro)

        self.inject("UserCall", {"id": id_, "mode": mode, "key": key}, fn)

    def ev_cancel_call(self, id_: str):
        def fn():
            t = self.call_tasks.get(id_)
            if t is None or t.done():
                return False
            t.cancel()

        self.inject("CancelCall", {"id": id_}, fn)

    def ev_flow(self, paused: bool):
        """The transport signals flow control to the protocol (its write buffer crossed a water mark)."""

        def fn():
            tr = self.w.tr
            if tr is None or tr.is_closing() or not getattr(tr, "_protocol_connected", True):
                return False
            p = tr.protocol
            (p.pause_writing if paused else p.resume_writing)()

        self.inject("EnvFlow", {"paused": bool(paused)}, fn)

    def ev_send(self, name: str):
        conn = self.w.conn

        def fn():
            from aioesphomeapi.core import APIConnectionError

            try:
                conn.send_messages((pb(name),))
            except APIConnectionError:
                pass

        self.inject("UserSend", {"n": name}, fn)

    def ev_cancel_op(self, op: str):
        """The caller cancels the task of its own pending start / finish / disconnect."""

        def fn():
            for o in self.w.ops.values():
                if getattr(o, "base", None) == op and not o.task.done():
                    o.task.cancel()
                    return None
            return False

        self.inject("UserCancel", {"op": op}, fn)

    def ev_sub(self, id_: int, kind: str, script: str):
        conn = self.w.conn

        def fn():
            if id_ in self.sub_unsubs or id_ in getattr(self, "sub_kinds", {}):
                return False
            if script != "none" and getattr(self, "scripted", False):
                return False  # one scripted subscriber per run keeps the outcome order-independent
            if script != "none":
                self.scripted = True
            from aioesphomeapi import api_pb2

            if kind == "*":
                from aioesphomeapi.core import MESSAGE_TYPE_TO_PROTO

                self._add_sub(id_, kind, script, tuple(MESSAGE_TYPE_TO_PROTO.values()))
            else:
                self._add_sub(id_, kind, script, (getattr(api_pb2, KIND_CLASS[kind]),))

        self.inject("UserSub", {"id": id_, "kind": kind, "script": script}, fn)

    def _add_sub(self, id_, kind, script, cls):
        conn = self.w.conn
        state = {"script": script}

        def on_msg(msg, id_=id_):
            # keep the message object itself: identities must not be reused within a step
            self.w.step_deliv.append([id_, kind_of_name(type(msg).__name__), msg])
            sc = state["script"]
            if sc == "unsub_self":
                self._pop_unsub(id_)()
            elif sc == "unsub_other":
                for other in [o for o in self.sub_unsubs if o != id_ and self.sub_kinds[o] == kind]:
                    self._pop_unsub(other)()
            elif sc == "sub_new":
                state["script"] = "none"
                self._add_sub(id_ + 10, kind, "none", cls)

        if kind == "*":
            on_msg._verif_wild = True
        self.sub_unsubs[id_] = conn.add_message_callback(on_msg, cls)
        if not hasattr(self, "sub_kinds"):
            self.sub_kinds = {}
        self.sub_kinds[id_] = kind

    def _pop_unsub(self, id_):
        u = self.sub_unsubs.pop(id_)
        if not hasattr(self, "stale_unsubs"):
            self.stale_unsubs = {}
        self.stale_unsubs[id_] = u  # the function stays callable: calling it again later must change nothing
        return u

    def ev_unsub(self, id_: int):
        def fn():
            if id_ in self.sub_unsubs:
                self._pop_unsub(id_)()
                return None
            u = getattr(self, "stale_unsubs", {}).get(id_)
            if u is None:
                return False
            u()  # a second call of an unsubscribe function that has done its work already

        self.inject("UserUnsub", {"id": id_}, fn)

    # --------------------------------------------------------------- running
    def iterations(self, k: int) -> None:
        for _ in range(k):
            self.loop.iteration()

    def settle(self) -> None:
        self.loop.run_until_idle()
        # sort deliveries of one message by subscriber id is done at dispatch level (see _log)
        self._log("idle", {}, idle=True)

    def tick(self) -> bool:
        self.settle()
        if not self.loop.advance_to_next_timer():
            return False
        self.settle()
        return True

    def advance(self, ms: int) -> None:
        self.settle()
        target = self.loop.time() + ms / 1000.0
        while True:
            nd = self.loop.next_deadline()
            if nd is None or nd > target:
                break
            self.loop.set_time(max(self.loop.time(), nd))
            self.settle()
        self.loop.set_time(target)
        self.settle()

    def stall(self, ms: int) -> None:
        """The event loop is blocked for ms (something else hogs the thread): time passes, the timers that fall due
        meanwhile fire late - all at the instant the loop runs again."""
        self.settle()
        self.loop.set_time(self.loop.time() + ms / 1000.0)
        self.inject("EnvStall", {"ms": int(ms)}, lambda: None)
        self.settle()

    def advance_excl(self, ms: int) -> None:
        """Advance to now+ms firing only the timers due strictly before that instant: the next
        injected event runs at that instant BEFORE the timers due at it (both orders at equal instants)."""
        self.settle()
        target = self.loop.time() + ms / 1000.0
        while True:
            nd = self.loop.next_deadline()
            if nd is None or nd >= target - 1e-9:
                break
            self.loop.set_time(max(self.loop.time(), nd))
            self.settle()
        self.loop.set_time(target)

    def finish(self) -> dict:
        self.settle()
        tr = {"cfg": {"noise": self.cfg["noise"], "exp": self.cfg["exp"], "login": self.cfg["login"], "K": self.cfg["K"], "naddr": self.cfg.get("naddr", 1)}, "rows": self.rows}
        errs = list(self.w.codec.format_errors) if self.w.codec else []
        self.unhandled = [repr(c.get("exception")) for c in self.loop.unhandled]
        if self.loop.harness_errors:
            raise RuntimeError("harness: exception in the harness's own callback code: " + "; ".join(self.loop.harness_errors[:3]))
        self.loop.after_callback = None
        self.w.close()
        tr["format_errors"] = errs
        tr["skipped"] = self.skipped
        return tr


def run_schedule(cfg: dict, schedule: list, seed: int = 0) -> dict:
    from .simloop import debug_logging

    with debug_logging(bool(cfg.get("debug"))):
        return _run_schedule(cfg, schedule, seed)


def _run_schedule(cfg: dict, schedule: list, seed: int = 0) -> dict:
    """schedule items: ("ev", name, *args) | ("iter", k) | ("idle",) | ("tick",) | ("adv", ms)"""
    r = ConnRun(cfg, seed)
    try:
        for it in schedule:
            kind = it[0]
            if kind == "ev":
                getattr(r, "ev_" + it[1])(*it[2:])
            elif kind == "iter":
                r.iterations(it[1])
            elif kind == "idle":
                r.settle()
            elif kind == "tick":
                r.tick()
            elif kind == "adv":
                r.advance(it[1])
            elif kind == "advx":
                r.advance_excl(it[1])
            elif kind == "stall":
                r.stall(it[1])
            elif kind == "noname":
                r.noise_noname = bool(it[1])
            elif kind == "badname_as":
                r.noise_badname = it[1]
        return r.finish()
    except BaseException:
        r.loop.after_callback = None
        r.w.close()
        raise


# ------------------------------------------------------------------ drivers

HELLOS = [
    {"k": "hello", "major": 1, "name": "dev"},
    {"k": "hello", "major": 1, "name": "dev"},
    {"k": "hello", "major": 2, "name": "dev"},
    {"k": "hello", "major": 3, "name": "dev"},
    {"k": "hello", "major": 1, "name": "oth"},
    {"k": "hello", "major": 1, "name": ""},
]
CONNECTS = [{"k": "connect", "invalid": False}, {"k": "connect", "invalid": False}, {"k": "connect", "invalid": True}]
TRAFFIC = [{"k": "pingreq"}, {"k": "timereq"}, {"k": "pingresp"}, {"k": "A", "key": 1}, {"k": "A", "key": 2}, {"k": "B"}, {"k": "done"},
           {"k": "unknown", "id": 200}, {"k": "discresp"}]
CLOSERS = [{"k": "discreq"}, {"k": "garbage"}]


def random_schedule(rng: random.Random, cfg: dict, n_events: int, p_fault: float, calls: bool, subs: bool) -> list:
    if cfg.get("naddr", 1) == 2:
        return _two_address_schedule(rng, cfg, n_events, p_fault)
    """A plausible random story: connect (possibly disturbed), traffic, close causes."""
    sch: list = []

    def gap():
        r = rng.random()
        if r < 0.3:
            return []
        if r < 0.55:
            return [("iter", 1)]
        if r < 0.7:
            return [("iter", 2)]
        if r < 0.95:
            return [("idle",)]
        return [("tick",)]

    def fault():
        return rng.choice(
            [("ev", "force"), ("ev", "disconnect"), ("ev", "eof"), ("ev", "reset"), ("ev", "writefail", True), ("ev", "shortframe", rng.choice((0, 1))),
             ("ev", "junk", rng.choice(("ProtocolAPIError", "RequiresEncryptionAPIError"))),
             ("ev", "chunk", [rng.choice(CLOSERS)]), ("ev", "start"), ("ev", "finish", cfg["login"]), ("tick",),
             ("ev", "cancel_op", rng.choice(("start", "finish", "disconnect")))]
        )

    story = [("ev", "start"), ("ev", "resolve", "ok" if rng.random() > p_fault / 3 else "err"),
             ("ev", "tcp", "ok" if rng.random() > p_fault / 3 else rng.choice(("err", "okbad"))), ("ev", "finish", cfg["login"])]
    if cfg["noise"]:
        r = rng.random()
        story.append(("ev", "handshake", "ok" if r > p_fault / 2 else rng.choice(("BadNameAPIError", "InvalidEncryptionKeyAPIError", "HandshakeAPIError"))))
    hello = [rng.choice(HELLOS)]
    if cfg["login"]:
        hello.append(rng.choice(CONNECTS))
        if rng.random() < 0.08:
            hello.reverse()
    if rng.random() < 0.5:
        extra = [rng.choice(TRAFFIC + CLOSERS) for _ in range(rng.randrange(0, 3))]
        story.append(("ev", "chunk", hello + extra))
    else:
        for m in hello:
            story.append(("ev", "chunk", [m]))
    for _ in range(n_events):
        r = rng.random()
        if calls and r < 0.25:
            story.append(("ev", "call", rng.choice(("c1", "c2", "c3")), rng.choice(("single", "list", "filter")), rng.choice((1, 2))))
        elif calls and r < 0.3:
            story.append(("ev", "cancel_call", rng.choice(("c1", "c2", "c3"))))
        elif subs and r < 0.4:
            story.append(("ev", "sub", rng.choice((1, 2)), rng.choice(("A", "B")), rng.choice(("none", "none", "unsub_self", "unsub_other", "sub_new"))))
        elif subs and r < 0.45:
            story.append(("ev", "unsub", rng.choice((1, 2))))
        elif r < 0.5:
            story.append(("ev", "flow", rng.random() < 0.6))
        else:
            story.append(("ev", "chunk", [rng.choice(TRAFFIC) for _ in range(rng.randrange(1, 4))] + ([rng.choice(CLOSERS)] if rng.random() < 0.1 else []) + ([rng.choice(TRAFFIC)] if rng.random() < 0.5 else [])))
    for ev in story:
        if rng.random() < p_fault:
            sch.append(fault())
            sch += gap()
        sch.append(ev)
        sch += gap() if rng.random() < 0.8 else []
    for _ in range(rng.randrange(0, 3)):
        sch.append(fault())
        sch += gap()
    sch.append(("idle",))
    for _ in range(rng.randrange(0, 4)):
        sch.append(("tick",))
    return sch


# ---------------------------------------------------------- systematic families
def happy_story(cfg: dict, hello=None, connect=None) -> list:
    hello = hello or {"k": "hello", "major": 1, "name": "dev"}
    connect = connect or {"k": "connect", "invalid": False}
    st = [("ev", "start"), ("ev", "resolve", "ok"), ("ev", "tcp", "ok"), ("ev", "finish", cfg["login"])]
    if cfg["noise"]:
        st.append(("ev", "handshake", "ok"))
    st.append(("ev", "chunk", [hello, connect] if cfg["login"] else [hello]))
    st += [
        ("ev", "sub", 1, "A", "none"),
        ("ev", "call", "c1", "list", 1),
        ("ev", "chunk", [{"k": "A", "key": 1}]),
        ("ev", "sub", 2, "B", "none"),
        ("ev", "chunk", [{"k": "pingreq"}, {"k": "B"}]),
    ]
    return st


CLOSERS_SYS = [
    [("ev", "force")],
    [("ev", "disconnect")],
    [("ev", "eof")],
    [("ev", "reset")],
    [("ev", "junk", "ProtocolAPIError")],
    [("ev", "junk", "RequiresEncryptionAPIError")],
    [("ev", "chunk", [{"k": "discreq"}, {"k": "A", "key": 1}, {"k": "B"}])],
    [("ev", "chunk", [{"k": "A", "key": 2}, {"k": "garbage"}, {"k": "A", "key": 1}])],
    [("ev", "writefail", True), ("ev", "chunk", [{"k": "pingreq"}, {"k": "A", "key": 1}])],
    [("tick",)],
    [("ev", "chunk", [{"k": "discreq"}]), ("ev", "chunk", [{"k": "A", "key": 1}])],
    [("ev", "cancel_op", "start")],
    [("ev", "tcp", "okbad")],
    [("ev", "cancel_op", "finish")],
    [("ev", "disconnect"), ("iter", 1), ("ev", "cancel_op", "disconnect")],
    # no close cause at all: the object is asked to connect a second time (it serves one attempt only)
    [("ev", "start")],
    [("ev", "finish", True)],
    # a response that completes the pending call and the cause of the close in ONE chunk (the waiter is resolved but
    # has not resumed yet when the connection is cleaned up)
    [("ev", "chunk", [{"k": "A", "key": 1}, {"k": "done"}, {"k": "discreq"}])],
    [("ev", "chunk", [{"k": "done"}, {"k": "garbage"}])],
    [("ev", "chunk", [{"k": "done"}]), ("ev", "eof")],
    # (Noise only) a frame that authenticates but is too short for its inner header
    [("ev", "shortframe", 1)],
    [("ev", "shortframe", 0)],
]
GAPS_SYS = [[], [("iter", 1)], [("idle",)]]


def crash_point_family(cfgs: list, pairs: bool, rng: random.Random | None = None, limit: int | None = None) -> list:
    """A close cause (or an ordered pair) injected before every step of the story, with every gap."""
    out = []
    for cfg in cfgs:
        story = happy_story(cfg)
        for p in range(1, len(story) + 1):
            for ci, closer in enumerate(CLOSERS_SYS):
                for g1 in GAPS_SYS:
                    for g0 in ([("idle",)], [("iter", 1)], []):
                        base = []
                        for ev in story[:p]:
                            base.append(ev)
                            base += [("idle",)] if ev is not story[p - 1] else g0
                        seconds = [None]
                        if pairs:
                            seconds = [None] + [c for c in CLOSERS_SYS]
                        for second in seconds:
                            sch = list(base) + list(closer) + list(g1)
                            if second is not None:
                                sch += list(second) + [("iter", 1)]
                            # the rest of the story still arrives
                            for ev in story[p:]:
                                sch.append(ev)
                                sch.append(("iter", 1))
                            sch += [("idle",), ("tick",), ("tick",), ("tick",)]
                            out.append((cfg, sch))
    if limit is not None and rng is not None and len(out) > limit:
        out = rng.sample(out, limit)
    return out


# ------------------------------------------------------------------- C06
def c06_family(quick: bool, rng: random.Random) -> list:
    """hello/login verdicts: version x name x password verdict x response order x chunking x configuration."""
    out = []
    majors = (0, 1, 2, 3, 4) if not quick else (1, 2, 3)
    for noise in (False, True):
        for exp in ("none", "dev"):
            for login in (False, True):
                for password in ((False, True) if login else (False,)):
                    cfg = dict(noise=noise, exp=exp, login=login, K=20000, password=password)
                    for major in majors:
                        for name in ("dev", "oth", ""):
                            hello = {"k": "hello", "major": major, "name": name}
                            for connect in ([{"k": "connect", "invalid": False}, {"k": "connect", "invalid": True}] if login else [None]):
                                orders = [[hello] + ([connect] if connect else [])]
                                if connect:
                                    orders += [[connect, hello], [hello], [connect]]
                                for order in orders:
                                    for split in ((False, True) if len(order) > 1 else (False,)):
                                        for noname in ((False, True) if noise else (False,)):
                                            for trail in ([], [{"k": "discreq"}], [{"k": "A", "key": 1}]):
                                                if trail and (split or quick and rng.random() < 0.6):
                                                    continue
                                                st = [("ev", "start"), ("idle",), ("ev", "resolve", "ok"), ("idle",), ("ev", "tcp", "ok"), ("idle",), ("ev", "finish", login), ("idle",)]
                                                if noise:
                                                    st += [("noname", noname), ("ev", "handshake", "ok"), ("idle",)]
                                                if split:
                                                    st += [("ev", "chunk", [order[0]]), rng.choice([("iter", 1), ("idle",)]), ("ev", "chunk", order[1:] + trail)]
                                                else:
                                                    st += [("ev", "chunk", order + trail)]
                                                st += [("idle",), ("ev", "chunk", [{"k": "A", "key": 2}]), ("idle",), ("tick",), ("tick",), ("tick",)]
                                                out.append((cfg, st))
    # names that ALMOST match the expected one (other case, "_" for "-", trailing blank, a prefix) are other names
    for noise in (False, True):
        cfg = dict(noise=noise, exp="d-v", login=False, K=20000)
        for name in ("d-v", "d_v", "D-V", "d-v ", "d-", "d-vv", "dev"):
            st = [("ev", "start"), ("idle",), ("ev", "resolve", "ok"), ("idle",), ("ev", "tcp", "ok"), ("idle",), ("ev", "finish", False), ("idle",)]
            if noise:
                st += [("noname", True), ("ev", "handshake", "ok"), ("idle",)]
            st += [("ev", "chunk", [{"k": "hello", "major": 1, "name": name}]), ("idle",), ("ev", "chunk", [{"k": "A", "key": 2}]), ("idle",), ("tick",), ("tick",)]
            out.append((cfg, st))
            if noise and name != "d-v":
                # the same near-miss announced in the Noise server hello
                out.append((cfg, [("ev", "start"), ("idle",), ("ev", "resolve", "ok"), ("idle",), ("ev", "tcp", "ok"), ("idle",), ("ev", "finish", False), ("idle",),
                                  ("badname_as", name), ("ev", "handshake", "BadNameAPIError"), ("idle",), ("tick",), ("tick",)]))
    # Noise: the name announced in the server hello is checked as well
    for login in (False, True):
        cfg = dict(noise=True, exp="dev", login=login, K=20000)
        for res in ("BadNameAPIError", "InvalidEncryptionKeyAPIError", "HandshakeAPIError"):
            st = [("ev", "start"), ("idle",), ("ev", "resolve", "ok"), ("idle",), ("ev", "tcp", "ok"), ("idle",), ("ev", "finish", login), ("idle",), ("ev", "handshake", res),
                  ("idle",), ("tick",), ("tick",)]
            out.append((cfg, st))
    return out


def happy_connect(cfg: dict) -> list:
    st = [("ev", "start"), ("idle",), ("ev", "resolve", "ok"), ("idle",), ("ev", "tcp", "ok"), ("idle",), ("ev", "finish", cfg["login"]), ("idle",)]
    if cfg["noise"]:
        st += [("ev", "handshake", "ok"), ("idle",)]
    hello = [{"k": "hello", "major": 1, "name": "dev"}] + ([{"k": "connect", "invalid": False}] if cfg["login"] else [])
    return st + [("ev", "chunk", hello), ("idle",)]


# ------------------------------------------------------------------- C10
KA_TRAFFIC = [{"k": "pingresp"}, {"k": "A", "key": 1}, {"k": "B"}, {"k": "pingreq"}, {"k": "unknown", "id": 250}, {"k": "unknown", "id": 0}]


def c10_family(quick: bool, rng: random.Random, n: int) -> list:
    """Arrival schedules on a K/16 grid (both orders at equal instants), several K, client-side sends that must not count."""
    out = []
    for i in range(n):
        K = rng.choice((500, 4000, 15000, 20000, 60000))
        cfg = dict(noise=rng.random() < 0.3, exp="none", login=rng.random() < 0.3, K=K)
        g = K // 16 if K % 16 == 0 else K // 10
        periods = rng.choice((8, 12, 20, 40)) if quick else rng.choice((12, 40, 100, 200))
        # arrival probability per grid point: from chatty to (almost) silent; may change once
        p1 = rng.choice((0.0, 0.002, 0.01, 0.03, 0.1, 0.4))
        p2 = rng.choice((p1, 0.0, 0.0, 0.05))
        p_send = rng.choice((0.0, 0.0, 0.05, 0.2))
        switch = rng.randrange(0, periods * (K // g))
        p_flow = rng.choice((0.0, 0.0, 0.01, 0.05))
        p_stall = rng.choice((0.0, 0.0, 0.005, 0.02))
        paused = False
        st = happy_connect(cfg)
        steps = periods * (K // g)
        pending = 0
        for j in range(steps):
            pending += g
            p = p1 if j < switch else p2
            r = rng.random()
            if r < p:
                # on tick instants both orders are tried: before the timers due now, or after
                st.append(("advx" if rng.random() < 0.5 else "adv", pending))
                pending = 0
                m = rng.choice(KA_TRAFFIC) if rng.random() < 0.8 else rng.choice(KA_TRAFFIC[:2])
                st.append(("ev", "chunk", [m] if rng.random() < 0.8 else [m, rng.choice(KA_TRAFFIC)]))
                st.append(rng.choice([("idle",), ("iter", 1)]))
            elif r < p + p_send:
                st.append(("advx" if rng.random() < 0.5 else "adv", pending))
                pending = 0
                st.append(("ev", "send", "SwitchCommandRequest"))
                st.append(("idle",))
            elif p_stall and rng.random() < p_stall:
                # the loop is blocked for longer than a keep-alive period: the tick runs late, the next one a full period
                # after it - no catching up, no ping for a peer that was heard from in between
                st.append(("adv", pending))
                pending = 0
                st.append(("stall", rng.choice((K + K // 4, 2 * K + K // 2, 3 * K, K // 2))))
                if rng.random() < 0.5:
                    st.append(("ev", "chunk", [rng.choice(KA_TRAFFIC[:2])]))
                    st.append(("idle",))
            elif p_flow and rng.random() < p_flow:
                # flow-control signals of the transport are no sign of life and no excuse for silence
                st.append(("advx" if rng.random() < 0.5 else "adv", pending))
                pending = 0
                paused = not paused
                st.append(("ev", "flow", paused))
                st.append(("idle",))
        st += [("adv", pending), ("idle",)]
        if rng.random() < 0.5:
            st += [("adv", 7 * K), ("idle",)]
        out.append((cfg, st))
    return out


# ------------------------------------------------------------------- C12
def c12_sweep_family(quick: bool, rng: random.Random) -> list:
    """Type-id sweeps: every id of the protocol and ids the protocol does not define, payload classes,
    both framings; a '*' subscriber records which class each id was decoded as."""
    from .world import schema

    _, byid, _ = schema()
    n = max(byid)
    out = []
    # (ids that equal a defined id modulo 2^8 / 2^16 as well: a decoder that truncates the type number is fooled by them)
    undefined = [0, n + 1, n + 2, n + 3, n + 4, n + 5, 127, 128, 255, 256, 16383, 16384, 65535, 256 + 1, 256 + 7, 256 + 9, 512 + 7, 256 + 36, 65280 + 7]
    undefined = [i for i in undefined if i not in byid]
    big = [65536, 2**31 - 1, 65536 + 7, 65536 + 5, 2**24 + 7]
    for noise in (False, True):
        cfg = dict(noise=noise, exp="none", login=False, K=20000)
        for pl in ("empty", "unkf"):
            st = happy_connect(cfg) + [("ev", "sub", 9, "*", "none"), ("ev", "sub", 1, "A", "none"), ("idle",)]
            ids = sorted(byid)
            disc = [i for i in ids if byid[i] == "DisconnectRequest"]
            ids = [i for i in ids if byid[i] != "DisconnectRequest"]
            seq = []
            for i in ids:
                seq.append({"k": "raw", "id": i, "as": kind_of_name(byid[i]), "pl": pl})
                if rng.random() < 0.3:
                    u = rng.choice(undefined + ([] if noise else big))
                    seq.append({"k": "raw", "id": u, "as": "unknown", "pl": pl})
                    if rng.random() < 0.6:
                        # the same undefined id again right behind (a decoder that remembers the last id is fooled by it)
                        seq.append({"k": "raw", "id": u, "as": "unknown", "pl": pl})
            # keep-alive sensitivity: after a tick with a ping in flight an undefined id must change nothing
            st += [("tick",), ("tick",)]
            pos = 0
            while pos < len(seq):
                k = rng.choice((1, 1, 2, 3, 5))
                st += [("ev", "chunk", seq[pos : pos + k]), rng.choice([("idle",), ("iter", 1), ("idle",)])]
                pos += k
            st += [("idle",), ("ev", "chunk", [{"k": "raw", "id": u, "as": "unknown", "pl": pl} for u in undefined + ([] if noise else big)]), ("idle",)]
            st += [("tick",), ("ev", "chunk", [{"k": "raw", "id": 0, "as": "unknown", "pl": "empty"}]), ("idle",), ("tick",)]
            st += [("ev", "chunk", [{"k": "raw", "id": disc[0], "as": "discreq", "pl": pl}, {"k": "A", "key": 1}]), ("idle",), ("tick",)]
            out.append((cfg, st))
        # an undecodable payload of a known type closes the connection with a protocol error
        ids = sorted(byid) if not quick else rng.sample(sorted(byid), 24)
        for i in ids:
            st = happy_connect(cfg) + [("ev", "sub", 9, "*", "none"), ("idle",)]
            st += [("ev", "chunk", [{"k": "A", "key": 1}, {"k": "garbage", "cls": byid[i]}, {"k": "A", "key": 2}]), ("idle",), ("tick",)]
            out.append((cfg, st))
        # an undecodable payload under an undefined id is still just ignored
        st = happy_connect(cfg) + [("ev", "sub", 9, "*", "none"), ("idle",)]
        st += [("ev", "chunk", [{"k": "raw", "id": u, "as": "unknown", "pl": "bad"} for u in undefined]), ("idle",), ("ev", "chunk", [{"k": "A", "key": 1}]), ("idle",)]
        out.append((cfg, st))
    if not quick:
        # every undefined id up to 65535 (plaintext and Noise), 512 per chunk
        for noise in (False, True):
            cfg = dict(noise=noise, exp="none", login=False, K=20000)
            st = happy_connect(cfg) + [("ev", "sub", 9, "*", "none"), ("idle",), ("tick",), ("tick",)]
            allu = [i for i in range(0, 65536) if i not in byid]
            for pos in range(0, len(allu), 512):
                st += [("ev", "chunk", [{"k": "raw", "id": u, "as": "unknown", "pl": "unkf"} for u in allu[pos : pos + 512]]), ("iter", 1)]
            st += [("idle",), ("ev", "chunk", [{"k": "A", "key": 1}]), ("idle",)]
            out.append((cfg, st))
    return out


# ------------------------------------------------------------------- C09
def c09_family(rng: random.Random, quick: bool) -> list:
    """Device behaviours that must not make an awaited call misbehave: duplicate / late / early responses in one chunk or across
    chunks, responses for a call that has already ended, silence until the time-out, a close at every point of the exchange."""
    out = []
    dups = [
        [{"k": "B"}, {"k": "B"}], [{"k": "B"}, {"k": "B"}, {"k": "B"}], [{"k": "done"}, {"k": "done"}], [{"k": "A", "key": 1}, {"k": "done"}, {"k": "A", "key": 1}, {"k": "done"}],
        [{"k": "A", "key": 1}, {"k": "A", "key": 1}], [{"k": "B"}, {"k": "discreq"}, {"k": "B"}], [{"k": "B"}, {"k": "garbage"}], [{"k": "unknown", "id": 250}, {"k": "B"}, {"k": "unknown", "id": 0}],
    ]
    enders = [[], [("ev", "eof")], [("ev", "reset")], [("ev", "force")], [("ev", "disconnect")], [("ev", "writefail", True), ("ev", "chunk", [{"k": "pingreq"}])], [("tick",)], [("ev", "cancel_call", "c1")]]
    for cfg in DEFAULT_CFGS:
        for mode in ("single", "list", "filter"):
            for d in dups:
                for e in enders:
                    for g in ([], [("iter", 1)], [("idle",)]):
                        st = happy_connect(cfg) + [("ev", "call", "c1", mode, 1)] + g + [("ev", "chunk", d)] + g + e + g + [("ev", "chunk", d)] + [("idle",), ("ev", "call", "c2", mode, 1), ("idle",), ("tick",), ("tick",)]
                        out.append((cfg, st))
    if quick and len(out) > 1200:
        out = rng.sample(out, 1200)
    return out


DEFAULT_CFGS = [
    dict(noise=False, exp="dev", login=True, K=20000),
    dict(noise=True, exp="none", login=False, K=20000),
    dict(noise=False, exp="none", login=False, K=20000),
    dict(noise=True, exp="dev", login=True, K=20000),
]


# ------------------------------------------------------------------- C03 (connection level)
def c03_conn_family(rng: random.Random) -> list:
    """Application frames in the same chunk as the Noise handshake reply (or right behind it), observed by a subscriber that
    listens on the connection from before the handshake; nothing is written before the handshake is complete."""
    out = []
    extras = [[{"k": "A", "key": 1}], [{"k": "B"}, {"k": "A", "key": 2}], [{"k": "unknown", "id": 250}, {"k": "A", "key": 1}], [{"k": "pingreq"}, {"k": "A", "key": 1}]]
    for exp in ("none", "dev"):
        for login in (False, True):
            cfg = dict(noise=True, exp=exp, login=login, K=20000)
            hello = [{"k": "hello", "major": 1, "name": "dev"}] + ([{"k": "connect", "invalid": False}] if login else [])
            for ex in extras:
                for mode in ("same", "next", "later"):
                    for g in ([("idle",)], [("iter", 1)], []):
                        st = [("ev", "start"), ("idle",), ("ev", "resolve", "ok"), ("idle",), ("ev", "tcp", "ok"), ("idle",), ("ev", "sub", 9, "*", "none"),
                              ("ev", "finish", login)] + g
                        if mode == "same":
                            st += [("ev", "handshake", "ok", ex)]
                        elif mode == "next":
                            st += [("ev", "handshake", "ok"), ("ev", "chunk", ex)]
                        else:
                            st += [("ev", "handshake", "ok"), ("iter", 1), ("ev", "chunk", ex)]
                        st += [("idle",), ("ev", "chunk", hello + ex), ("idle",), ("ev", "chunk", ex), ("idle",), ("tick",)]
                        out.append((cfg, st))
    return out


def _two_address_schedule(rng: random.Random, cfg: dict, n_events: int, p_fault: float) -> list:
    """The host resolves to two addresses: the first TCP pass fails (error or 60 s), the second gets its own pass."""
    sch = [("ev", "start"), ("idle",), ("ev", "resolve", "ok"), ("idle",)]
    first = rng.choice(("err", "timeout", "ok", "okbad"))
    sch += [("ev", "tcp", first)] if first != "timeout" else [("tick",)]
    sch += rng.choice(([("idle",)], [("iter", 1)], []))
    if rng.random() < 0.2:
        sch += [rng.choice([("ev", "force"), ("ev", "disconnect"), ("ev", "cancel_op", "start")])] + rng.choice(([("idle",)], [("iter", 1)], []))
    second = rng.choice(("err", "timeout", "ok", "ok"))
    sch += ([("ev", "tcp", second)] if second != "timeout" else [("tick",)]) + [("idle",)]
    sch += [("ev", "finish", cfg["login"]), ("idle",)]
    if cfg["noise"]:
        sch += [("ev", "handshake", "ok"), ("idle",)]
    sch += [("ev", "chunk", [{"k": "hello", "major": 1, "name": "dev"}] + ([{"k": "connect", "invalid": False}] if cfg["login"] else [])), ("idle",), ("tick",), ("tick",)]
    return sch


def c11_neighbours_family() -> list:
    """Calls next to subscriptions on the same message types: a subscriber that comes and goes - including an
    unsubscribe function called a second time after it has done its work - must not cost a pending call its
    response handler, and a call that ends must not cost a subscriber its deliveries."""
    out = []
    for noise in (False, True):
        cfg = dict(noise=noise, exp="none", login=False, K=20000)
        for mode, resp in (("single", [{"k": "B"}]), ("list", [{"k": "A", "key": 1}, {"k": "done"}]), ("filter", [{"k": "A", "key": 1}])):
            kind = "B" if mode == "single" else "A"
            for g in ([], [("iter", 1)], [("idle",)]):
                base = happy_connect(cfg)
                # subscriber gone before the call; its unsubscribe function is called again while the call waits
                out.append((cfg, base + [("ev", "sub", 1, kind, "none"), ("idle",), ("ev", "unsub", 1)] + g + [("ev", "call", "c1", mode, 1)] + g +
                            [("ev", "unsub", 1)] + g + [("ev", "chunk", resp), ("idle",), ("ev", "chunk", resp), ("idle",), ("tick",)]))
                # subscriber arrives while the call waits and outlives it
                out.append((cfg, base + [("ev", "call", "c1", mode, 1)] + g + [("ev", "sub", 1, kind, "none")] + g + [("ev", "chunk", resp), ("idle",),
                            ("ev", "chunk", resp), ("idle",), ("ev", "unsub", 1), ("ev", "chunk", resp), ("idle",), ("tick",)]))
                # a graceful disconnect is in flight when the connection fails: the pending call still gets the
                # connection's error (the first fatal cause), not a bare "connection closed"
                for closer in ([("ev", "reset", "reset")], [("ev", "reset", "timedout")], [("ev", "eof")], [("ev", "shortframe", 1)],
                               [("ev", "writefail", True), ("ev", "chunk", [{"k": "pingreq"}])], [("ev", "chunk", [{"k": "garbage"}])]):
                    out.append((cfg, base + [("ev", "call", "c1", mode, 1)] + g + [("ev", "disconnect")] + g + closer + [("idle",), ("tick",), ("tick",)]))
                    out.append((cfg, base + [("ev", "call", "c1", mode, 1)] + g + [("ev", "chunk", [{"k": "pingreq"}])] + closer + [("idle",), ("tick",)]))
                # two calls on the same type, the first one cancelled / timed out while the second waits
                out.append((cfg, base + [("ev", "call", "c1", mode, 1), ("ev", "call", "c2", mode, 1)] + g + [("ev", "cancel_call", "c1")] + g +
                            [("ev", "chunk", resp), ("idle",), ("tick",)]))
    return out
