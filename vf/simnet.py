"""Simulated socket / transport with the semantics of asyncio's
_SelectorSocketTransport (close, _force_close, _fatal_error, EOF handling, dropped
writes after loss), driven explicitly by the checker instead of a selector."""

from __future__ import annotations

import asyncio
from asyncio import futures


class SimSocket:
    def __init__(self, peer=("10.0.0.1", 6053), family=2, broken: bool = False) -> None:
        self.broken = broken  # the peer reset the connection right after it was established
        self.closed = False
        self.peer_reset = False  # recv() has failed: the connection is dead as far as the OS is concerned
        self.close_calls = 0
        self.peer = peer
        self.family = family
        self.opts: list = []

    def setblocking(self, flag) -> None:
        pass

    def setsockopt(self, *a) -> None:
        self.opts.append(a)

    def getpeername(self):
        if self.broken:
            raise OSError(107, "Transport endpoint is not connected")
        return self.peer

    def getsockname(self):
        return ("10.0.0.2", 50000)

    def fileno(self) -> int:
        return -1 if self.closed else 99

    def close(self) -> None:
        self.closed = True
        self.close_calls += 1

    def shutdown(self, how) -> None:
        """As the OS does it: EBADF on a closed descriptor, ENOTCONN once the peer has reset the connection."""
        if self.closed:
            raise OSError(9, "Bad file descriptor")
        if self.peer_reset or self.broken:
            raise OSError(107, "Transport endpoint is not connected")


class SimTransport(asyncio.Transport):
    """What loop.create_connection(sock=...) returns in the simulated world."""

    def __init__(self, loop, sock: SimSocket, protocol, waiter=None) -> None:
        super().__init__()
        self._loop = loop
        self._sock = sock
        self.sock = sock  # kept for inspection after loss
        self._protocol = protocol
        self.protocol = protocol
        self._closing = False
        self._conn_lost = 0
        self._eof = False
        self._protocol_connected = False
        self.connection_lost_called = False
        self.writes: list[bytes] = []  # data that reached the wire
        self.dropped_writes: list[bytes] = []  # write() after loss: silently dropped by asyncio
        self.write_calls = 0
        self.fail_writes: BaseException | None = None  # scripted failure of write()
        self.on_write = None  # observer(bytes)
        self.reading = False
        self._feeds = 0
        loop.call_soon(self._connection_made)
        loop.call_soon(self._start_reading)
        if waiter is not None:
            loop.call_soon(futures._set_result_unless_cancelled, waiter, None)

    def _connection_made(self) -> None:
        self._protocol_connected = True
        self._protocol.connection_made(self)

    def _start_reading(self) -> None:
        if not self._closing:
            self.reading = True

    # --- Transport API
    def get_extra_info(self, name, default=None):
        if name == "socket":
            return self._sock
        if name == "peername":
            return self.sock.peer
        return default

    def is_closing(self) -> bool:
        return self._closing

    def write(self, data) -> None:
        self.write_calls += 1
        if self.fail_writes is not None and not self._conn_lost and not self.sock.closed:
            raise self.fail_writes
        if self._eof:
            raise RuntimeError("Cannot call write() after write_eof()")
        if not data:
            return
        if self._conn_lost:
            self._conn_lost += 1
            self.dropped_writes.append(bytes(data))
            return
        if self.sock.closed:
            # the fd was closed under the transport: send() fails with EBADF, nothing reaches the peer
            self.dropped_writes.append(bytes(data))
            self._fatal_error(OSError(9, "Bad file descriptor"), "Fatal write error on socket transport")
            return
        b = bytes(data)
        self.writes.append(b)
        if self.on_write is not None:
            self.on_write(b)

    def writelines(self, list_of_data) -> None:
        self.write(b"".join(list_of_data))

    def write_eof(self) -> None:
        self._eof = True

    def can_write_eof(self) -> bool:
        return True

    def abort(self) -> None:
        self._force_close(None)

    def close(self) -> None:
        if self._closing:
            return
        self._closing = True
        self.reading = False
        self._conn_lost += 1
        self._loop.call_soon(self._call_connection_lost, None)

    def _fatal_error(self, exc, message="Fatal error on transport") -> None:
        if not isinstance(exc, OSError):
            self._loop.call_exception_handler(
                {"message": message, "exception": exc, "transport": self, "protocol": self._protocol}
            )
        self._force_close(exc)

    def _force_close(self, exc) -> None:
        if self._conn_lost:
            return
        if not self._closing:
            self._closing = True
            self.reading = False
        self._conn_lost += 1
        self._loop.call_soon(self._call_connection_lost, exc)

    def _call_connection_lost(self, exc) -> None:
        try:
            if self._protocol_connected:
                self.connection_lost_called = True
                self._protocol.connection_lost(exc)
        finally:
            self._sock.close()
            self._sock = None
            self._protocol = None

    # --- what the simulated network does to it (each is one I/O callback)
    def can_receive(self) -> bool:
        return self.reading and not self._closing

    def feed(self, data: bytes) -> bool:
        """The selector reports the socket readable and recv() returns `data`."""
        if not self.can_receive():
            return False
        # a transport may hand the protocol a view of a receive buffer that it re-uses for the next read
        # (buffered / proactor-style transports): every other chunk is delivered that way and the buffer is
        # overwritten as soon as data_received has returned - nothing the library keeps may alias it
        self._feeds += 1
        buf = bytearray(data) if self._feeds % 2 == 0 else None
        try:
            self._protocol.data_received(data if buf is None else (buf if self._feeds % 4 == 0 else memoryview(buf)))
        except (SystemExit, KeyboardInterrupt):
            raise
        except BaseException as exc:  # noqa: BLE001
            self._fatal_error(exc, "Fatal error: protocol.data_received() call failed.")
        finally:
            if buf is not None:
                buf[:] = b"\xa5" * len(buf)
        return True

    def feed_eof(self) -> bool:
        if not self.can_receive():
            return False
        try:
            keep_open = self._protocol.eof_received()
        except (SystemExit, KeyboardInterrupt):
            raise
        except BaseException as exc:  # noqa: BLE001
            self._fatal_error(exc, "Fatal error: protocol.eof_received() call failed.")
            return True
        if keep_open:
            self.reading = False
        else:
            self.close()
        return True

    def feed_error(self, exc: BaseException) -> bool:
        """recv() raised (e.g. ConnectionResetError)."""
        if not self.can_receive():
            return False
        self.sock.peer_reset = True
        self._fatal_error(exc, "Fatal read error on socket transport")
        return True
