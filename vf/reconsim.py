"""Run stories on the real ReconnectLogic (on the real APIClient / APIConnection, over the
simulated network) and record the stream of observable events for TraceReconnect.tla (C18)."""

from __future__ import annotations

import asyncio
import random

from .clientsim import CONNECT_BAD, CONNECT_OK, HELLO_OK
from .connsim import device_message
from .world import World


class FakeZeroconfCore:
    def __init__(self, run):
        self.run = run
        self.listeners: list = []

    def async_add_listener(self, listener, question) -> None:
        self.listeners.append(listener)
        self.run.event(["zc_add"])

    def async_remove_listener(self, listener) -> None:
        if listener in self.listeners:
            self.listeners.remove(listener)
        self.run.event(["zc_remove"])


class FakeAsyncZeroconf:
    instances: list = []

    def __init__(self, *a, **k):
        self.zeroconf = FakeZeroconfCore(FakeAsyncZeroconf.run)
        self.closed = 0
        FakeAsyncZeroconf.instances.append(self)
        FakeAsyncZeroconf.run.event(["zc_new"])

    async def async_close(self) -> None:
        self.closed += 1
        FakeAsyncZeroconf.run.event(["zc_close"])


class ReconRun:
    def __init__(self, cfg: dict, seed: int = 0):
        import aioesphomeapi.zeroconf as zmod
        from aioesphomeapi import APIClient
        from aioesphomeapi.reconnect_logic import ReconnectLogic

        self.cfg = cfg
        self.w = World(seed=seed, noise=False, client=True, password="pw")
        self.loop = self.w.loop
        self.zmod = zmod
        self._orig_azc = zmod.AsyncZeroconf
        FakeAsyncZeroconf.run = self
        FakeAsyncZeroconf.instances = []
        zmod.AsyncZeroconf = FakeAsyncZeroconf
        self.rows: list[dict] = []
        self.skipped = 0
        run = self

        class ObservedClient(APIClient):
            async def start_connection(self, on_stop=None):
                run.event(["attempt"])
                run.attempt_times.append(run.w.now_ms())
                return await super().start_connection(on_stop)

        self.client = ObservedClient("dev.local", 6053, "pw", keepalive=10**6)
        self.rl = ReconnectLogic(client=self.client, on_connect=self._on_connect, on_disconnect=self._on_disconnect, on_connect_error=self._on_error)
        self.attempt_times: list[int] = []
        self.rl_cls = ReconnectLogic

    # ----------------------------------------------------------- observation
    def event(self, e: list) -> None:
        self.rows.append({"e": e, "t": self.w.now_ms()})

    async def _on_connect(self) -> None:
        self.event(["connect_cb"])

    async def _on_disconnect(self, expected: bool) -> None:
        self.event(["disconnect_cb", bool(expected)])

    async def _on_error(self, err: Exception) -> None:
        from aioesphomeapi.core import InvalidAuthAPIError, InvalidEncryptionKeyAPIError, RequiresEncryptionAPIError

        self.event(["error_cb", isinstance(err, (InvalidAuthAPIError, InvalidEncryptionKeyAPIError, RequiresEncryptionAPIError))])

    def snapshot(self) -> dict:
        rl = self.rl
        timer = -1
        for h in self.loop.armed_handles():
            cb = h._callback
            if getattr(cb, "__func__", None) is self.rl_cls._call_connect_once and getattr(cb, "__self__", None) is rl:
                timer = int(round(h._when * 1000))
        return {"rs": rl._connection_state.name, "started": not rl._is_stopped, "tries": rl._tries, "timer": timer, "listen": bool(rl._zc_listening)}

    def settle(self) -> None:
        self.loop.run_until_idle()
        row = {"e": ["idle"], "t": self.w.now_ms(), "snap": self.snapshot()}
        if self.rows and self.rows[-1]["e"] == ["idle"] and self.rows[-1]["t"] == row["t"] and self.rows[-1]["snap"] == row["snap"]:
            return
        self.rows.append(row)

    # ---------------------------------------------------------------- events
    def inject(self, fn, row=None) -> None:
        def cb():
            before = len(self.rows)
            if row is not None:
                self.rows.append({"e": row, "t": self.w.now_ms()})
            if fn() is False:
                self.skipped += 1
                if row is not None:
                    del self.rows[before]

        self.loop.call_soon(cb)

    def ev_start(self):
        def fn():
            rl = self.rl
            # drivers call start() only on a stopped manager at rest without a live session
            if not rl._is_stopped or rl._connected_lock.locked() or self.client._connection is not None:
                return False
            asyncio.Task(rl.start(), loop=self.loop, eager_start=True)

        self.inject(fn, ["start"])

    def ev_stop(self):
        def fn():
            if self.rl._is_stopped or getattr(self, "_stopping", False):
                return False
            self._stopping = True

            async def stop():
                try:
                    await self.rl.stop()
                finally:
                    self._stopping = False
                    self.event(["stop_ret"])

            asyncio.Task(stop(), loop=self.loop, eager_start=True)

        self.inject(fn, ["stop"])

    def ev_mdns(self, kind: str):
        """kind: ptr | a | other"""
        import zeroconf
        from zeroconf import DNSAddress, DNSPointer
        from zeroconf.const import _CLASS_IN, _TYPE_A, _TYPE_PTR

        match = kind in ("ptr", "a")
        row = ["mdns", match]

        def fn():
            if not FakeAsyncZeroconf.instances:
                return False
            core = FakeAsyncZeroconf.instances[-1].zeroconf
            if self.rl not in core.listeners:
                return False
            if kind == "ptr":
                rec = DNSPointer("_esphomelib._tcp.local.", _TYPE_PTR, _CLASS_IN, 1000, "dev._esphomelib._tcp.local.")
            elif kind == "a":
                rec = DNSAddress("dev.local.", _TYPE_A, _CLASS_IN, 1000, b"\x0a\x00\x00\x01")
            elif kind == "other_ptr":
                rec = DNSPointer("_esphomelib._tcp.local.", _TYPE_PTR, _CLASS_IN, 1000, "oth._esphomelib._tcp.local.")
            else:
                rec = DNSAddress("oth.local.", _TYPE_A, _CLASS_IN, 1000, b"\x0a\x00\x00\x02")
            self.rl.async_update_records(None, 0.0, [zeroconf.RecordUpdate(rec, None)])

        self.inject(fn, row)

    def ev_resolve(self, res: str):
        self.inject(self.w.resolve_ok if res == "ok" else self.w.resolve_err)

    def ev_tcp(self, res: str):
        self.inject(self.w.tcp_ok if res == "ok" else self.w.tcp_err)

    def _session_live(self) -> bool:
        c = self.client._connection
        return bool(c is not None and c.is_connected)

    def ev_chunk(self, ms: list):
        w = self.w
        # a disconnect request of the device on a live session initiates a graceful end
        row = ["graceful"] if any(m.get("k") == "discreq" for m in ms) else None
        # a login answer that flags the password invalid: the device's verdict on the attempt in flight
        verdict = any(m.get("k") == "connect" and m.get("invalid") for m in ms)
        if verdict:
            row = ["verdict_bad"]

        def fn():
            tr = w.tr
            if tr is None or not tr.can_receive() or (row == ["graceful"] and not self._session_live()):
                return False
            if verdict and (self._session_live() or not self._handshaking()):
                return False
            return w.send_msgs([device_message(m) for m in ms])

        self.inject(fn, row)

    def ev_user_disconnect(self):
        """The application ends the live session itself (client.disconnect()) while the manager is running."""

        def fn():
            if not self._session_live() or getattr(self, "_user_disc", None) is not None and not self._user_disc.done():
                return False
            self._user_disc = asyncio.Task(self.client.disconnect(), loop=self.loop, eager_start=True)

        self.inject(fn, ["graceful"])

    def _handshaking(self) -> bool:
        """The attempt in flight has its transport and is waiting for the device's hello / login answers."""
        c = self.client._connection
        return bool(c is not None and not c.is_connected and c.connection_state.name == "HANDSHAKE_COMPLETE")

    def ev_junk(self):
        # a device that wants encryption: its verdict on the attempt in flight
        def fn():
            if not self._handshaking():
                return False
            return self.w.chunk(b"\x01\x00\x00")

        self.inject(fn, ["verdict_bad"])

    def ev_eof(self):
        self.inject(self.w.eof)

    def tick(self) -> None:
        self.settle()
        nd = self.loop.next_deadline()
        if nd is not None and nd * 1000 < 10**8 and self.loop.advance_to_next_timer():
            self.settle()

    def advance(self, ms: int) -> None:
        self.settle()
        target = self.loop.time() + ms / 1000.0
        while True:
            nd = self.loop.next_deadline()
            if nd is None or nd > target:
                break
            self.loop.set_time(max(self.loop.time(), nd))
            self.settle()
        self.loop.set_time(target)
        self.settle()

    def finish(self) -> dict:
        self.settle()
        self.unhandled = [repr(c.get("exception")) for c in self.loop.unhandled]
        if self.loop.harness_errors:
            raise RuntimeError("harness: exception in the harness's own callback code: " + "; ".join(self.loop.harness_errors[:3]))
        self.zmod.AsyncZeroconf = self._orig_azc
        self.w.close()
        return {"rows": self.rows, "skipped": self.skipped, "attempts": self.attempt_times, "zc_closed": [z.closed for z in FakeAsyncZeroconf.instances]}


def run_schedule(cfg: dict, schedule: list, seed: int = 0) -> dict:
    r = ReconRun(cfg, seed)
    try:
        for it in schedule:
            k = it[0]
            if k == "ev":
                getattr(r, "ev_" + it[1])(*it[2:])
            elif k == "iter":
                for _ in range(it[1]):
                    r.loop.iteration()
            elif k == "idle":
                r.settle()
            elif k == "tick":
                r.tick()
            elif k == "adv":
                r.advance(it[1])
        return r.finish()
    except BaseException:
        r.zmod.AsyncZeroconf = r._orig_azc
        r.w.close()
        raise


# ------------------------------------------------------------------ stories
HELLO = [HELLO_OK, CONNECT_OK]
OUTCOMES = ["resolve_err", "tcp_err", "hs_err", "auth_err", "enc_err", "auth_err_eof", "enc_err_eof", "ok"]


def attempt_steps(outcome: str) -> list:
    """Network events that make the attempt in flight end with `outcome`."""
    if outcome == "resolve_err":
        return [("ev", "resolve", "err")]
    if outcome == "tcp_err":
        return [("ev", "resolve", "ok"), ("idle",), ("ev", "tcp", "err")]
    pre = [("ev", "resolve", "ok"), ("idle",), ("ev", "tcp", "ok"), ("idle",)]
    if outcome == "hs_err":
        return pre + [("ev", "eof")]
    if outcome == "auth_err":
        return pre + [("ev", "chunk", [HELLO_OK, CONNECT_BAD])]
    if outcome == "auth_err_eof":  # the device's verdict and the close of the socket in the same loop iteration
        return pre + [("ev", "chunk", [HELLO_OK, CONNECT_BAD]), ("ev", "eof")]
    if outcome == "enc_err_eof":
        return pre + [("ev", "junk"), ("ev", "eof")]
    if outcome == "enc_err":
        return pre + [("ev", "junk")]
    return pre + [("ev", "chunk", HELLO)]


def gaps(rng):
    r = rng.random()
    return [] if r < 0.2 else [("iter", 1)] if r < 0.45 else [("idle",)]


def random_story(rng: random.Random, n: int) -> list:
    sch = [("ev", "start"), ("idle",)]
    for _ in range(n):
        r = rng.random()
        if r < 0.45:
            out = rng.choice(OUTCOMES + ["ok", "ok"])
            steps = attempt_steps(out)
            for s in steps:
                sch.append(s)
                if rng.random() < 0.15:
                    sch += gaps(rng) + [rng.choice([("ev", "mdns", rng.choice(("ptr", "a", "other", "other_ptr"))), ("ev", "stop"), ("tick",)])]
            sch += gaps(rng)
            if out == "ok" and rng.random() < 0.8:
                if rng.random() < 0.3:
                    sch += [("idle",), ("ev", "user_disconnect")] + gaps(rng) + [rng.choice([("ev", "chunk", [{"k": "discresp"}]), ("ev", "eof"), ("tick",), ("ev", "chunk", [{"k": "garbage"}])])] + gaps(rng)
                else:
                    sch += [("idle",), rng.choice([("ev", "chunk", [{"k": "discreq"}]), ("ev", "eof")])] + gaps(rng)
        elif r < 0.6:
            sch += [("ev", "mdns", rng.choice(("ptr", "a", "other", "other_ptr")))] + gaps(rng)
        elif r < 0.8:
            sch += [("tick",)]
        elif r < 0.88:
            sch += [("adv", rng.choice((500, 1000, 2500, 5000)))]
        elif r < 0.94:
            sch += [("ev", "stop")] + gaps(rng)
        else:
            sch += [("ev", "start")] + gaps(rng)
    sch += [("idle",), ("tick",), ("ev", "resolve", "err"), ("idle",), ("ev", "stop"), ("idle",), ("tick",), ("ev", "mdns", "ptr"), ("idle",)]
    return sch


def systematic() -> list:
    """Outcome sequences of up to 7 consecutive failures (the whole back-off ladder), then success; stop / start / a matching
    mDNS record placed before every step and in the same iteration as the retry timer; expected and unexpected session ends."""
    out = []
    # the back-off ladder and the reset after a success
    for kind in ("resolve_err", "tcp_err", "hs_err"):
        sch = [("ev", "start"), ("idle",)]
        for _ in range(9):
            sch += attempt_steps(kind) + [("idle",), ("tick",)]
        sch += attempt_steps("ok") + [("idle",), ("ev", "eof"), ("idle",)] + attempt_steps(kind) + [("idle",), ("tick",)] + attempt_steps("ok") + [("idle",), ("ev", "stop"), ("idle",)]
        out.append(sch)
    for kind in ("auth_err", "enc_err", "auth_err_eof", "enc_err_eof"):
        out.append([("ev", "start"), ("idle",)] + attempt_steps(kind) + [("idle",), ("tick",)] + attempt_steps("tcp_err") + [("idle",), ("tick",)] + attempt_steps("ok") + [("idle",)])
    # a long outage: far more consecutive failures than any exponent the back-off formula was tried with
    # (1.8^n leaves the range of a float at n = 1208): the manager keeps retrying every 60 s and recovers
    sch = [("ev", "start"), ("idle",)]
    for _ in range(1300):
        sch += attempt_steps("resolve_err") + [("idle",), ("tick",)]
    sch += attempt_steps("ok") + [("idle",), ("ev", "stop"), ("idle",)]
    out.append(sch)
    # disturbances at every point of every two-attempt story
    dist = [("ev", "stop"), ("ev", "mdns", "ptr"), ("ev", "mdns", "a"), ("ev", "mdns", "other"), ("tick",), ("ev", "start")]
    for o1 in OUTCOMES:
        for o2 in ("tcp_err", "ok"):
            base = [("ev", "start"), ("idle",)] + attempt_steps(o1) + [("idle",)]
            if o1 == "ok":
                base += [("ev", "chunk", [{"k": "discreq"}]), ("idle",)]
            base += [("tick",)] + attempt_steps(o2) + [("idle",)]
            for p in range(1, len(base) + 1):
                for d in dist:
                    for g in ([], [("iter", 1)], [("idle",)]):
                        sch = list(base[:p]) + [d] + g + list(base[p:]) + [("tick",), ("idle",), ("ev", "stop"), ("idle",), ("tick",), ("ev", "start"), ("idle",), ("ev", "resolve", "err"), ("idle",)]
                        out.append(sch)
    # the application disconnects the live session itself: whatever closes it afterwards (the device's answer, a
    # plain close, a protocol error, the time-out) it was an expected end - cool-down, then the next attempt
    for closer in ([("ev", "chunk", [{"k": "discresp"}])], [("ev", "eof")], [("ev", "chunk", [{"k": "garbage"}])], [("tick",)], [("ev", "chunk", [{"k": "discreq"}])]):
        for g in ([], [("iter", 1)], [("idle",)]):
            sch = [("ev", "start"), ("idle",)] + attempt_steps("ok") + [("idle",), ("ev", "user_disconnect")] + g + closer + g
            sch += [("idle",), ("tick",), ("tick",)] + attempt_steps("ok") + [("idle",), ("ev", "stop"), ("idle",)]
            out.append(sch)
    # a matching record in the same iteration as the retry timer (both orders)
    for first in ("mdns", "timer"):
        sch = [("ev", "start"), ("idle",)] + attempt_steps("tcp_err") + [("idle",), ("adv", 1999)]
        sch += [("ev", "mdns", "ptr"), ("adv", 1), ("idle",)] if first == "mdns" else [("adv", 1), ("ev", "mdns", "ptr"), ("idle",)]
        sch += attempt_steps("tcp_err") + [("idle",), ("tick",), ("tick",)]
        out.append(sch)
    return out


def tokens_to_schedule(toks: list, variant: int) -> list:
    """One history of Reconnect.tla events (printed by TLC, GenMode) -> schedule for the real ReconnectLogic over the
    simulated network.  The recorded event stream is validated against the specification, so the translation
    needs no oracle of its own; events whose precondition does not hold in the real run are skipped."""
    sch: list = []
    gap_cycle = ([], [("iter", 1)], [("idle",)])
    for n, t in enumerate(toks):
        k = t[0]
        g = list(gap_cycle[(n + variant) % 3])
        if k == "start":
            sch += [("ev", "start")] + g
        elif k == "stop":
            sch += [("ev", "stop")] + g
        elif k == "mdns":
            sch += [("ev", "mdns", ("ptr", "a")[(n + variant) % 2] if t[1] else ("other", "other_ptr")[(n + variant) % 2])] + g
        elif k in ("timer", "totimer"):
            sch += [("tick",)] if k == "totimer" else [("iter", 1)]
        elif k == "wait":
            sch += [("adv", int(t[1]))]
        elif k == "tcpup":
            sch += [("ev", "resolve", "ok"), ("idle",), ("ev", "tcp", "ok")] + g
        elif k == "fail":
            auth, att = bool(t[1]), t[2]
            if att == "starting":
                # (authentication / encryption failures need the handshake: they come as a whole attempt)
                sch += (attempt_steps(("auth_err", "enc_err")[(n + variant) % 2]) if auth else
                        attempt_steps(("resolve_err", "tcp_err")[(n + variant) % 2])) + g
            else:
                sch += ([("ev", "chunk", [HELLO_OK, CONNECT_BAD])] if auth else [("ev", "eof")]) + g
        elif k == "succeed":
            sch += [("ev", "chunk", HELLO)] + g
        elif k == "graceful":
            sch += [("ev", "user_disconnect")] + g
        elif k == "end":
            # (an expected end follows a "graceful" token; what closes the session then is the device's answer, a plain
            # close of the socket, or the time-out of the disconnect)
            sch += ([[("ev", "chunk", [{"k": "discresp"}])], [("ev", "eof")], [("tick",)]][(n + variant) % 3] if t[1] else [("ev", "eof")]) + g
        elif k == "i":
            sch += [("iter", 1)]
    sch += [("idle",), ("tick",), ("idle",), ("ev", "stop"), ("idle",), ("tick",), ("ev", "mdns", "ptr"), ("idle",)]
    return sch


# ------------------------------------------------------------------ log_runner.async_run
class LogRun(ReconRun):
    """The real log_runner.async_run (its own ReconnectLogic inside) on the real APIClient over the simulated network.
    Rows for TraceLogRunner.tla: ["sub", dump_config] (subscribe_logs as the runner calls it), ["log", n] (handler
    invoked), ["down"] (the harness ends a live session), ["stop_ret"] (the stop function returned)."""

    def __init__(self, cfg: dict, seed: int = 0):
        super().__init__(cfg, seed)
        import aioesphomeapi.log_runner as lrmod

        run = self
        self.lrmod = lrmod
        self._orig_rl = lrmod.ReconnectLogic
        base = self.rl_cls

        class CapturedLogic(base):
            def __init__(self, *a, **k):
                super().__init__(*a, **k)
                run.rl = self  # the manager the runner created: start / mDNS guards of the harness look at it

        lrmod.ReconnectLogic = CapturedLogic
        orig_sub = self.client.subscribe_logs

        def subscribe_logs(on_log, log_level=None, dump_config=None):
            run.rows.append({"e": ["sub", bool(dump_config)], "t": run.w.now_ms()})
            return orig_sub(on_log, log_level=log_level, dump_config=dump_config)

        self.client.subscribe_logs = subscribe_logs
        self.stop_fn = None
        self.rows = []

    def event(self, e: list) -> None:  # manager-level events are not part of this trace
        if e and e[0] == "stop_ret":
            self.rows.append({"e": ["stop_ret"], "t": self.w.now_ms()})

    def ev_start(self):
        def fn():
            if self.stop_fn is not None or getattr(self, "_starting", False):
                return False
            self._starting = True

            async def go():
                self.stop_fn = await self.lrmod.async_run(self.client, lambda m: self.rows.append({"e": ["log", int(m.message.decode())], "t": self.w.now_ms()}),
                                                          dump_config=True, name="dev")

            asyncio.Task(go(), loop=self.loop, eager_start=True)

        self.inject(fn)

    def ev_stop(self):
        def fn():
            if self.stop_fn is None or getattr(self, "_stopping", False):
                return False
            self._stopping = True

            async def stop():
                await self.stop_fn()
                self.rows.append({"e": ["stop_ret"], "t": self.w.now_ms()})

            asyncio.Task(stop(), loop=self.loop, eager_start=True)

        self.inject(fn)

    def ev_eof(self):
        def fn():
            if self._session_live():
                self.rows.append({"e": ["down"], "t": self.w.now_ms()})
            return self.w.eof()

        self.inject(fn)

    def ev_chunk(self, ms: list):
        w = self.w
        disc = any(m.get("k") == "discreq" for m in ms)

        def fn():
            tr = w.tr
            if tr is None or not tr.can_receive():
                return False
            if disc and self._session_live():
                self.rows.append({"e": ["down"], "t": self.w.now_ms()})  # the device ends the live session
            return w.send_msgs([device_message(m) for m in ms])

        self.inject(fn)

    def ev_logmsg(self, n: int):
        from .world import msg_id, pb

        def fn():
            tr = self.w.tr
            if tr is None or not tr.can_receive() or not self._session_live():
                return False
            return self.w.send_msgs([(msg_id("SubscribeLogsResponse"), pb("SubscribeLogsResponse", level=3, message=str(n).encode()).SerializeToString())])

        self.inject(fn)

    def settle(self) -> None:
        self.loop.run_until_idle()

    def finish(self) -> dict:
        self.settle()
        self.lrmod.ReconnectLogic = self._orig_rl
        self.zmod.AsyncZeroconf = self._orig_azc
        if self.loop.harness_errors:
            raise RuntimeError("harness: exception in the harness's own callback code: " + "; ".join(self.loop.harness_errors[:3]))
        self.w.close()
        return {"rows": self.rows, "skipped": self.skipped}


def run_log_schedule(schedule: list, seed: int = 0) -> dict:
    r = LogRun({}, seed)
    try:
        for it in schedule:
            k = it[0]
            if k == "ev":
                getattr(r, "ev_" + it[1])(*it[2:])
            elif k == "iter":
                for _ in range(it[1]):
                    r.loop.iteration()
            elif k == "idle":
                r.settle()
            elif k == "tick":
                r.settle()
                if r.loop.advance_to_next_timer():
                    r.settle()
        return r.finish()
    except BaseException:
        r.lrmod.ReconnectLogic = r._orig_rl
        r.zmod.AsyncZeroconf = r._orig_azc
        r.w.close()
        raise


def log_runner_family(rng: random.Random, n: int) -> list:
    """Several sessions of one runner: each established session subscribes once (the configuration dump only the first
    time), log lines reach the handler while a session is up, the stop function ends it for good."""
    out = []
    for _ in range(n):
        sch = [("ev", "start"), ("idle",)]
        for s_ in range(rng.randrange(1, 5)):
            outcome = rng.choice(("ok", "ok", "tcp_err", "resolve_err"))
            sch += attempt_steps(outcome) + [("idle",)]
            if outcome == "ok":
                for _ in range(rng.randrange(0, 4)):
                    sch += [("ev", "logmsg", rng.randrange(1, 500))] + gaps(rng)
                sch += [rng.choice([("ev", "eof"), ("ev", "chunk", [{"k": "discreq"}]), ("ev", "eof")])] + gaps(rng)
                if rng.random() < 0.3:
                    sch += [("ev", "logmsg", 7), ("idle",)]
            sch += [("tick",)]
        if rng.random() < 0.7:
            sch += attempt_steps("ok") + [("idle",), ("ev", "logmsg", 9), ("idle",)]
        sch += [("ev", "stop"), ("idle",), ("ev", "logmsg", 5), ("tick",), ("idle",)]
        out.append(sch)
    return out
