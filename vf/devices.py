"""Device-side simulators, written from the wire documentation and sharing no
code with the client under test.

* plaintext: varint / frame encoder and decoder (checked against Wire.tla by
  the trace specifications: the header bytes are part of every trace)
* Noise: a stock ``noiseprotocol`` responder for the handshake and
  ``cryptography``'s ChaCha20Poly1305 with *explicit* nonces for data frames.
"""

from __future__ import annotations

import struct

from cryptography.hazmat.primitives.ciphers.aead import ChaCha20Poly1305
from noise.connection import NoiseConnection

# --------------------------------------------------------------------- varint


def varint(n: int) -> bytes:
    assert n >= 0
    out = bytearray()
    while True:
        b = n % 128
        n //= 128
        if n:
            out.append(b + 128)
        else:
            out.append(b)
            return bytes(out)


def dec_varint(data: bytes, pos: int):
    """Return (value, next_pos) or None if the bytes run out."""
    val = 0
    mult = 1
    while pos < len(data):
        b = data[pos]
        pos += 1
        if b < 128:
            return val + b * mult, pos
        val += (b - 128) * mult
        mult *= 128
    return None


def plain_frame(type_: int, payload: bytes) -> bytes:
    return b"\x00" + varint(len(payload)) + varint(type_) + payload


def plain_header(type_: int, plen: int) -> bytes:
    return b"\x00" + varint(plen) + varint(type_)


def decode_plain_stream(data: bytes):
    """Strictly decode a client->device plaintext byte string into frames.

    Returns (frames, error).  Non-minimal varints or a wrong zero byte are errors.
    """
    frames = []
    pos = 0
    while pos < len(data):
        if data[pos] != 0:
            return frames, f"byte {pos}: preamble {data[pos]:#x} is not zero"
        r = dec_varint(data, pos + 1)
        if r is None:
            return frames, "truncated length varint"
        plen, p2 = r
        if varint(plen) != data[pos + 1 : p2]:
            return frames, "non-minimal length varint"
        r = dec_varint(data, p2)
        if r is None:
            return frames, "truncated type varint"
        typ, p3 = r
        if varint(typ) != data[p2:p3]:
            return frames, "non-minimal type varint"
        if p3 + plen > len(data):
            return frames, "truncated payload"
        frames.append((typ, data[p3 : p3 + plen]))
        pos = p3 + plen
    return frames, None


# ---------------------------------------------------------------------- noise

NOISE_NAME = b"Noise_NNpsk0_25519_ChaChaPoly_SHA256"
PROLOGUE = b"NoiseAPIInit\x00\x00"


def nonce_bytes(n: int) -> bytes:
    # Noise spec, ChaChaPoly: 32 bits of zeros followed by little-endian 64-bit n
    return struct.pack("<LQ", 0, n)


def noise_outer(body: bytes) -> bytes:
    assert len(body) < 65536
    return bytes((1, len(body) >> 8, len(body) & 0xFF)) + body


class NoiseDevice:
    """A standards-conformant responder (stock noiseprotocol, default backend)."""

    def __init__(self, psk: bytes, name: str | None = "dev", mac: str | None = None):
        self.psk = psk
        self.name = name
        self.proto = NoiseConnection.from_name(NOISE_NAME)
        self.proto.set_as_responder()
        self.proto.set_psks(psk)
        self.proto.set_prologue(PROLOGUE)
        self.proto.start_handshake()
        self.send_key: bytes | None = None  # device -> client
        self.recv_key: bytes | None = None  # client -> device
        self.tx_nonce = 0
        self.rx_nonce = 0
        self.inbuf = b""
        self.client_frames: list[bytes] = []  # raw bodies of frames the client sent
        self.handshake_done = False

    # -- what the device sends
    def hello_frame(self, proto: int = 1) -> bytes:
        body = bytes((proto,))
        if self.name is not None:
            body += self.name.encode() + b"\x00"
        return noise_outer(body)

    def feed_client_bytes(self, data: bytes) -> list[bytes]:
        """Split the client's bytes into frame bodies (strict framing)."""
        self.inbuf += data
        out = []
        while len(self.inbuf) >= 3:
            if self.inbuf[0] != 1:
                raise ValueError(f"client frame marker {self.inbuf[0]:#x} != 0x01")
            ln = (self.inbuf[1] << 8) | self.inbuf[2]
            if len(self.inbuf) < 3 + ln:
                break
            out.append(self.inbuf[3 : 3 + ln])
            self.inbuf = self.inbuf[3 + ln :]
        self.client_frames.extend(out)
        return out

    def handshake_reply(self, client_handshake_body: bytes, payload: bytes = b"") -> bytes:
        """Process the client's handshake frame body, return our handshake frame."""
        if client_handshake_body[:1] != b"\x00":
            raise ValueError("client handshake frame does not start with 0x00")
        self.proto.read_message(client_handshake_body[1:])
        msg = self.proto.write_message(payload)  # a conformant responder may attach a payload to "<- e, ee"
        assert self.proto.handshake_finished
        np = self.proto.noise_protocol
        self.send_key = np.cipher_state_encrypt.k
        self.recv_key = np.cipher_state_decrypt.k
        self.handshake_done = True
        return noise_outer(b"\x00" + msg)

    def handshake_error_frame(self, explanation: str) -> bytes:
        return noise_outer(b"\x01" + explanation.encode())

    def encrypt_with(self, key: bytes, nonce: int, type_: int, payload: bytes) -> bytes:
        inner = bytes((type_ >> 8 & 0xFF, type_ & 0xFF, len(payload) >> 8 & 0xFF, len(payload) & 0xFF)) + payload
        return ChaCha20Poly1305(key).encrypt(nonce_bytes(nonce), inner, None)

    def data_frame(self, type_: int, payload: bytes, nonce: int | None = None, key: bytes | None = None) -> bytes:
        if nonce is None:
            nonce = self.tx_nonce
            self.tx_nonce += 1
        return noise_outer(self.encrypt_with(key or self.send_key, nonce, type_, payload))

    def short_frame(self, n: int) -> bytes:
        """A frame that authenticates but whose plaintext (n < 4 bytes) is too short to hold the inner header."""
        nonce = self.tx_nonce
        self.tx_nonce += 1
        return noise_outer(ChaCha20Poly1305(self.send_key).encrypt(nonce_bytes(nonce), bytes(n), None))

    # -- what the device reads
    def decrypt_client(self, body: bytes, nonce: int):
        """Try to open a client frame with an explicit nonce -> (type, payload, declared_len) or None."""
        try:
            inner = ChaCha20Poly1305(self.recv_key).decrypt(nonce_bytes(nonce), body, None)
        except Exception:  # noqa: BLE001  (InvalidTag)
            return None
        if len(inner) < 4:
            return None
        return ((inner[0] << 8) | inner[1], inner[4:], (inner[2] << 8) | inner[3])


# ------------------------------------------------- recording stand-ins (helper level)


class ConsumerFailed(RuntimeError):
    """Raised by the stand-in connection for the packets it was told to fail on."""


class RecordingConnection:
    """Stands in for APIConnection below a frame helper."""

    def __init__(self) -> None:
        self.packets: list[tuple[int, bytes]] = []
        self.errors: list[BaseException] = []
        self.raise_on_packet: BaseException | None = None
        self.raise_at: set[int] = set()  # 1-based numbers of the packets whose consumer fails (after taking the packet)

    def process_packet(self, msg_type: int, data: bytes) -> None:
        self.packets.append((msg_type, bytes(data)))
        if self.raise_on_packet is not None:
            raise self.raise_on_packet
        if len(self.packets) in self.raise_at:
            raise ConsumerFailed(len(self.packets))

    def report_fatal_error(self, err: BaseException) -> None:
        self.errors.append(err)


class RecordingTransport:
    """Minimal asyncio.Transport stand-in for helper-level checks."""

    def __init__(self) -> None:
        self.writes: list[bytes] = []
        self.closed = False
        self.close_calls = 0
        self.writes_after_close = 0

    def write(self, data) -> None:
        if self.closed:
            self.writes_after_close += 1
        self.writes.append(bytes(data))

    def close(self) -> None:
        self.closed = True
        self.close_calls += 1

    def is_closing(self) -> bool:
        return self.closed

    def get_extra_info(self, name, default=None):
        return default

    def abort(self) -> None:
        self.close()
