"""Run client-level histories on the real APIClient in the simulated world and record
trace rows for TraceClient.tla (C19; the same runner feeds the API sweeps of C13)."""

from __future__ import annotations

import asyncio
import random

from . import apisurface
from .connsim import device_message
from .world import Op, World, classify

STATE = {"INITIALIZED": "init", "SOCKET_OPENED": "opened", "HANDSHAKE_COMPLETE": "hsdone", "CONNECTED": "connected", "CLOSED": "closed"}


class ClientRun:
    def __init__(self, cfg: dict, seed: int = 0):
        import aioesphomeapi.client as client_mod
        from aioesphomeapi import APIClient

        self.cfg = cfg
        self.w = World(seed=seed, noise=cfg.get("noise", False), client=True, keepalive=cfg.get("K", 20000) / 1000.0)
        self.loop = self.w.loop
        self.client_mod = client_mod
        self.conns: list = []
        self._orig_conn_cls = client_mod.APIConnection
        orig = self._orig_conn_cls

        def factory(*a, **k):
            conn = orig(*a, **k)
            self.conns.append(conn)
            return conn

        client_mod.APIConnection = factory
        # spy on handler registration (which message types does an API call subscribe to)
        self.step_subs: list[str] = []
        self._orig_add = orig._add_message_callback_without_remove
        run = self

        def spy(conn, on_message, msg_types):
            run.step_subs.extend(t.__name__ for t in msg_types)
            return run._orig_add(conn, on_message, msg_types)

        orig._add_message_callback_without_remove = spy
        import base64

        self.client = APIClient(
            "10.0.0.1", 6053, "pw" if cfg.get("login") else None, keepalive=cfg.get("K", 20000) / 1000.0,
            noise_psk=base64.b64encode(self.w.psk).decode() if self.w.noise else None,
        )
        self.w.expected_password = "pw" if cfg.get("login") else None
        if cfg.get("debug"):
            self.client.set_debug(True)  # debug-logging paths on: behaviour must not depend on them
        self.rows: list[dict] = []
        self.cur = None
        self.skipped = 0
        self.user_stops: list = []
        self.api_surface, self.api_gaps = apisurface.surface()
        self.api_by_name = {n: (a, k) for n, a, k in self.api_surface}
        self.nops = 0
        self.last = self._proj()
        self.last_ns = 0
        self.hello_seen: set[int] = set()
        self.loop.after_callback = self._after_callback

    # ------------------------------------------------------------ projection
    def _proj(self):
        c = self.client._connection
        pi = 0
        if c is not None:
            pi = self.conns.index(c) + 1 if c in self.conns else -1
        return (pi, tuple(STATE[x.connection_state.name] for x in self.conns))

    def _log(self, cause: str, args: dict, idle: bool = False) -> None:
        w = self.w
        writes, _, ncalls = w.drain_step()
        done = []
        for op in w.poll_ops():
            done.append([op.base, op.outcome, op.outcome not in ("ok", "Cancelled") and not op.outcome.startswith("RAW:")])
        p = self._proj()
        changed = p != self.last or done or writes or self.step_subs or len(self.user_stops) != self.last_ns
        self.last_ns = len(self.user_stops)
        if cause == "int" and not changed:
            return
        if cause == "idle" and not changed and self.rows and self.rows[-1]["c"] == "idle":
            return
        self.last = p
        subs, self.step_subs = self.step_subs, []
        self.rows.append({"c": cause, "a": args, "t": w.now_ms(), "pi": p[0], "sts": list(p[1]), "dn": done, "wn": len(writes), "w": writes, "sub": subs, "q": idle, "ns": len(self.user_stops), "sa": [bool(x) for x in self.user_stops]})

    def _after_callback(self, handle) -> None:
        if self.cur is not None:
            cause, args = self.cur
            self.cur = None
            self._log(cause, args)
        else:
            self._log("int", {})

    def inject(self, cause: str, args: dict, fn) -> None:
        def cb():
            ok = fn()
            if ok is not False:
                self.cur = (cause, args)
            else:
                self.skipped += 1

        self.loop.call_soon(cb)

    def spawn(self, name: str, coro):
        task = asyncio.Task(coro, loop=self.loop, eager_start=True)
        self.nops += 1
        op = Op(f"{name}#{self.nops}", task, self.loop.time())
        op.base = name
        self.w.ops[op.name] = op
        return task

    def _pending(self, base: str) -> bool:
        return any(op.base == base and not op.task.done() for op in self.w.ops.values())

    async def _on_stop(self, expected: bool) -> None:
        self.user_stops.append(expected)
        # what the application does in the first step of its stop callback (tasks start eagerly: this runs inside
        # the callback in which the session ended)
        hook = self.cfg.get("hook", "none")
        if hook == "start":
            self.spawn("start", self.client.start_connection(self._on_stop))
        elif hook == "api":
            is_async, kwargs = self.api_by_name["switch_command"]

            async def call():
                return self.client.switch_command(**kwargs)

            self.spawn("api", call())

    # ---------------------------------------------------------------- events
    def ev_start(self):
        def fn():
            if self._pending("start") or self._pending("finish") or self._pending("connect"):
                # a second start while the caller's own attempt is still running is refused; covered separately
                pass
            self.spawn("start", self.client.start_connection(self._on_stop))

        self.inject("UserStart", {}, fn)

    def ev_connect(self):
        def fn():
            self.spawn("connect", self.client.connect(self._on_stop, login=bool(self.cfg.get("login"))))

        self.inject("UserConnect", {}, fn)

    def ev_finish(self):
        def fn():
            c = self.client._connection
            if c is None or STATE[c.connection_state.name] != "opened" or self._pending("start") or self._pending("finish") or self._pending("connect"):
                return False
            self.spawn("finish", self.client.finish_connection(login=bool(self.cfg.get("login"))))

        self.inject("UserFinish", {}, fn)

    def ev_disconnect(self, force: bool):
        self.inject("UserDisconnect", {"force": bool(force)}, lambda: self.spawn("disconnect", self.client.disconnect(force=bool(force))) and None)

    def ev_api(self, name: str):
        def fn():
            is_async, kwargs = self.api_by_name[name]
            meth = getattr(self.client, name)
            if is_async:
                self.spawn("api", meth(**kwargs))
            else:

                async def call():
                    return meth(**kwargs)

                self.spawn("api", call())

        self.inject("UserApi", {"name": name}, fn)

    # voice assistant
    def ev_va_subscribe(self, mode: str, audio: bool):
        """mode: what handle_start does - 'port' returns 12345, 'none' returns None, 'block' waits until cancelled"""

        def fn():
            run = self

            async def handle_start(conv_id, flags, settings, wake):
                run.va_log.append(["start", conv_id])
                if mode == "port":
                    return 12345
                if mode == "none":
                    return None
                await run.loop.create_future()

            async def handle_stop(abort):
                run.va_log.append(["stop", bool(abort)])

            async def handle_audio(data):
                run.va_log.append(["audio", len(data)])

            async def handle_fin(m):
                run.va_log.append(["finished", bool(m.success)])

            self.va_log = getattr(self, "va_log", [])
            try:
                self.va_unsub = self.client.subscribe_voice_assistant(
                    handle_start=handle_start, handle_stop=handle_stop, handle_audio=handle_audio if audio else None, handle_announcement_finished=handle_fin)
            except Exception:  # noqa: BLE001  (not connected)
                return None

        self.inject("VaSubscribe", {"name": f"subscribe_voice_assistant[{mode}]"}, fn)

    def ev_va_unsub(self):
        def fn():
            u = getattr(self, "va_unsub", None)
            if u is None:
                return False
            self.va_unsub = None
            u()

        self.inject("VaUnsub", {"name": "voice_assistant_unsub"}, fn)

    # environment
    def ev_resolve(self, res: str):
        self.inject("env", {"e": "resolve", "res": res}, self.w.resolve_ok if res == "ok" else self.w.resolve_err)

    def ev_tcp(self, res: str):
        self.inject("env", {"e": "tcp", "res": res}, self.w.tcp_ok if res == "ok" else self.w.tcp_err)

    def ev_handshake(self):
        w = self.w

        def fn():
            c, tr = w.codec, w.tr
            if c is None or not c.noise or tr is None or not tr.can_receive() or c.client_hs_body is None or c.nd.handshake_done:
                return False
            return tr.feed(c.noise_hello() + c.noise_handshake())

        self.inject("env", {"e": "handshake"}, fn)

    def _owner_of(self, tr) -> int:
        for i, c in enumerate(self.conns):
            fh = c._frame_helper
            if fh is not None and getattr(fh, "_transport", None) is tr:
                return i + 1
        return 0

    def ev_chunk(self, ms: list):
        w = self.w
        hello = [m for m in ms if m["k"] == "hello"]
        # a HelloResponse carries the device's name: logged with the connection it is for
        cause, args = ("EnvHello", {"e": "chunk", "ks": [m["k"] for m in ms], "i": 0, "n": hello[0].get("name", "")}) if hello else ("env", {"e": "chunk", "ks": [m["k"] for m in ms]})
        discreq = any(m["k"] == "discreq" for m in ms)
        if discreq:
            # the device's disconnect request: an expected end of the connection it is sent to
            cause, args = "EnvDiscReq", {"e": "chunk", "ks": [m["k"] for m in ms], "i": 0}

        def fn():
            c, tr = w.codec, w.tr
            if c is None or tr is None or not tr.can_receive() or (c.noise and not c.nd.handshake_done):
                return False
            if discreq:
                args["i"] = self._owner_of(tr)
            elif hello:
                i = self._owner_of(tr)
                conn = self.conns[i - 1] if i else None
                # only the first HelloResponse of a connection that is waiting for it counts (i = 0: an unsolicited one)
                if conn is not None and STATE[conn.connection_state.name] == "hsdone" and i not in self.hello_seen:
                    self.hello_seen.add(i)
                    args["i"] = i
            return w.send_msgs([device_message(m) for m in ms])

        self.inject(cause, args, fn)

    def ev_expect(self, name: str):
        """The application sets (or clears, 'none') APIClient.expected_name."""

        def fn():
            c = self.client._connection
            if c is not None and STATE[c.connection_state.name] in ("opened", "hsdone") and (self._pending("finish") or self._pending("connect")):
                return False  # not while a finish phase is evaluating names: the moment the change takes effect would be ambiguous
            self.client.expected_name = None if name == "none" else name

        self.inject("UserExpect", {"n": name}, fn)

    def ev_eof(self):
        """The peer closes the socket: the connection that owns the transport is closed in this very callback."""
        args = {"e": "eof", "i": 0}

        def fn():
            tr = self.w.tr
            if tr is None or not tr.can_receive():
                return False
            for i, c in enumerate(self.conns):
                fh = c._frame_helper
                if fh is not None and getattr(fh, "_transport", None) is tr:
                    args["i"] = i + 1
            return self.w.eof()

        self.inject("EnvLoss", args, fn)

    def ev_writefail(self):
        """From now on the current transport raises on write (the peer is gone, asyncio has not noticed yet)."""
        args = {"i": 0}

        def fn():
            tr = self.w.tr
            if tr is None or not tr.can_receive() or tr.fail_writes is not None:
                return False
            for i, c in enumerate(self.conns):
                fh = c._frame_helper
                if fh is not None and getattr(fh, "_transport", None) is tr:
                    args["i"] = i + 1
            if not args["i"]:
                return False
            tr.fail_writes = self.w.rng.choice([OSError(32, "broken pipe"), ConnectionResetError(104, "reset"), RuntimeError("unable to perform operation on closed transport")])

        self.inject("EnvWriteFail", args, fn)

    def ev_reset(self):
        """recv() fails: asyncio force-closes the transport now (writes are dropped silently from here on) and
        delivers connection_lost one iteration later."""
        args = {"e": "reset", "i": 0}

        def fn():
            tr = self.w.tr
            if tr is None or not tr.can_receive():
                return False
            for i, c in enumerate(self.conns):
                fh = c._frame_helper
                if fh is not None and getattr(fh, "_transport", None) is tr:
                    args["i"] = i + 1
            return self.w.reset()

        self.inject("EnvReset", args, fn)

    # --------------------------------------------------------------- running
    def settle(self) -> None:
        self.loop.run_until_idle()
        self._log("idle", {}, idle=True)

    def tick(self) -> None:
        self.settle()
        if self.loop.advance_to_next_timer():
            self.settle()

    def finish(self) -> dict:
        self.settle()
        self.loop.after_callback = None
        self.unhandled = [repr(c.get("exception")) for c in self.loop.unhandled]
        if self.loop.harness_errors:
            raise RuntimeError("harness: exception in the harness's own callback code: " + "; ".join(self.loop.harness_errors[:3]))
        self.client_mod.APIConnection = self._orig_conn_cls
        self._orig_conn_cls._add_message_callback_without_remove = self._orig_add
        self.w.close()
        return {"cfg": {"noise": bool(self.cfg.get("noise")), "login": bool(self.cfg.get("login")), "hook": self.cfg.get("hook", "none")}, "rows": self.rows, "skipped": self.skipped,
                "gaps": self.api_gaps, "stops": self.user_stops}


def run_schedule(cfg: dict, schedule: list, seed: int = 0) -> dict:
    from .simloop import debug_logging

    with debug_logging(bool(cfg.get("debug"))):
        return _run_schedule(cfg, schedule, seed)


def _run_schedule(cfg: dict, schedule: list, seed: int = 0) -> dict:
    r = ClientRun(cfg, seed)
    try:
        for it in schedule:
            kind = it[0]
            if kind == "ev":
                getattr(r, "ev_" + it[1])(*it[2:])
            elif kind == "iter":
                for _ in range(it[1]):
                    r.loop.iteration()
            elif kind == "idle":
                r.settle()
            elif kind == "tick":
                r.tick()
        return r.finish()
    except BaseException:
        r.loop.after_callback = None
        r.client_mod.APIConnection = r._orig_conn_cls
        r._orig_conn_cls._add_message_callback_without_remove = r._orig_add
        r.w.close()
        raise


# ------------------------------------------------------------------ stories
HELLO_OK = {"k": "hello", "major": 1, "name": "dev"}
HELLO_BAD = {"k": "hello", "major": 3, "name": "dev"}
CONNECT_OK = {"k": "connect", "invalid": False}
CONNECT_BAD = {"k": "connect", "invalid": True}

API_SAMPLE = ["switch_command", "device_info", "subscribe_states", "bluetooth_gatt_read", "light_command", "subscribe_logs",
              "list_entities_services", "execute_service", "subscribe_voice_assistant", "request_single_image"]


def session_steps(cfg: dict, rng: random.Random, split: bool) -> list:
    """The events of one connect attempt (happy)."""
    hello = [HELLO_OK] + ([CONNECT_OK] if cfg.get("login") else [])
    st = [("ev", "start") if split else ("ev", "connect"), ("ev", "resolve", "ok"), ("ev", "tcp", "ok")]
    if split:
        st.append(("ev", "finish"))
    if cfg.get("noise"):
        st.append(("ev", "handshake"))
    st.append(("ev", "chunk", hello))
    return st


def gaps(rng: random.Random) -> list:
    r = rng.random()
    if r < 0.2:
        return []
    if r < 0.45:
        return [("iter", 1)]
    if r < 0.55:
        return [("iter", 2)]
    return [("idle",)]


WRITEFAIL = [("ev", "writefail")]
DISTURB = [("ev", "disconnect", False), ("ev", "disconnect", True), ("ev", "eof"), ("ev", "reset"), ("ev", "chunk", [{"k": "discreq"}]),
           ("ev", "resolve", "err"), ("ev", "tcp", "err"), ("ev", "chunk", [HELLO_BAD]), ("ev", "chunk", [HELLO_OK, CONNECT_BAD]), ("tick",),
           ("ev", "start"), ("ev", "connect")]


def random_history(rng: random.Random, cfg: dict, sessions: int, p_dist: float) -> list:
    sch: list = []
    for _ in range(sessions):
        split = rng.random() < 0.6
        for ev in session_steps(cfg, rng, split):
            if rng.random() < p_dist:
                sch.append(rng.choice(DISTURB))
                sch += gaps(rng)
            if rng.random() < 0.25:
                sch.append(("ev", "api", rng.choice(API_SAMPLE)))
                sch += gaps(rng)
            sch.append(ev)
            sch += [("idle",)] if rng.random() < 0.7 else gaps(rng)
        # the session (if any) lives a bit, then ends somehow
        if rng.random() < 0.2:
            sch += [("ev", "writefail")] + gaps(rng)
        for _ in range(rng.randrange(0, 3)):
            sch.append(("ev", "api", rng.choice(API_SAMPLE)))
            sch += gaps(rng)
        sch.append(rng.choice(DISTURB[:5] + [("tick",)]))
        sch += gaps(rng)
        if rng.random() < 0.5:
            sch.append(("ev", "api", rng.choice(API_SAMPLE)))
        sch += [("idle",)] if rng.random() < 0.8 else gaps(rng)
    sch += [("ev", "start"), ("idle",), ("ev", "resolve", "err"), ("idle",), ("tick",)]
    return sch


def stage_family(cfgs: list) -> list:
    """disconnect() / force / peer close / faults injected at EVERY stage of a connect, with every gap,
    followed by a fresh attempt that must be accepted; API calls at every stage."""
    out = []
    for cfg in cfgs:
        for split in (True, False):
            base = session_steps(cfg, random.Random(0), split)
            for p in range(0, len(base) + 1):
                for d in DISTURB[:10]:
                    for g in ([], [("iter", 1)], [("idle",)]):
                        for g0 in ([("idle",)], []):
                            sch = []
                            for i, ev in enumerate(base[:p]):
                                sch.append(ev)
                                sch += [("idle",)] if i < p - 1 else g0
                            sch.append(d)
                            sch += g
                            sch += [("ev", "api", "switch_command")] + g
                            # a fresh attempt
                            sch += [("ev", "start"), ("idle",), ("ev", "resolve", "ok"), ("idle",), ("ev", "tcp", "ok"), ("idle",), ("ev", "start"), ("idle",),
                                    ("ev", "disconnect", False), ("idle",), ("ev", "connect"), ("idle",), ("ev", "resolve", "err"), ("idle",), ("tick",), ("tick",)]
                            out.append((cfg, sch))
    return out


def gate_sweep(cfgs: list) -> list:
    """Every public API method at every stage in which no authenticated session is alive (and once while one is)."""
    names = [n for n, _, _ in apisurface.surface()[0]]
    out = []
    for cfg in cfgs:
        hello = [HELLO_OK] + ([CONNECT_OK] if cfg.get("login") else [])
        stages = {
            "never": [],
            "starting": [("ev", "start"), ("idle",)],
            "between": [("ev", "start"), ("idle",), ("ev", "resolve", "ok"), ("idle",), ("ev", "tcp", "ok"), ("idle",)],
            "finishing": [("ev", "start"), ("idle",), ("ev", "resolve", "ok"), ("idle",), ("ev", "tcp", "ok"), ("idle",), ("ev", "finish"), ("idle",)]
            + ([("ev", "handshake"), ("idle",)] if cfg.get("noise") else []),
            "after_peer_close": [("ev", "connect"), ("idle",), ("ev", "resolve", "ok"), ("idle",), ("ev", "tcp", "ok"), ("idle",)]
            + ([("ev", "handshake"), ("idle",)] if cfg.get("noise") else []) + [("ev", "chunk", hello), ("idle",), ("ev", "chunk", [{"k": "discreq"}]), ("idle",)],
            "after_disconnect": [("ev", "connect"), ("idle",), ("ev", "resolve", "ok"), ("idle",), ("ev", "tcp", "ok"), ("idle",)]
            + ([("ev", "handshake"), ("idle",)] if cfg.get("noise") else []) + [("ev", "chunk", hello), ("idle",), ("ev", "disconnect", True), ("idle",)],
            "after_failed": [("ev", "connect"), ("idle",), ("ev", "resolve", "err"), ("idle",)],
        }
        for stage, pre in stages.items():
            sch = list(pre)
            for n in names:
                sch += [("ev", "api", n), ("idle",)]
            out.append((cfg, sch))
    return out


def stop_hook_family(cfgs: list) -> list:
    """The application's stop callback reconnects / issues a command in its very first step, i.e. inside the callback
    in which the session ended - for every way a session can end, with every gap; the attempt it started is then
    completed, disturbed or abandoned, and a further attempt must be accepted afterwards."""
    out = []
    ends = [("ev", "disconnect", False), ("ev", "disconnect", True), ("ev", "eof"), ("ev", "reset"), ("ev", "chunk", [{"k": "discreq"}]),
            ("ev", "chunk", [{"k": "garbage"}]), ("tick",), ("wf", "switch_command"), ("wf", "device_info"), ("wf", "subscribe_states"), ("wf", "disconnect"),
            ("dw", ("ev", "eof")), ("dw", ("ev", "reset")), ("dw", ("ev", "chunk", [{"k": "discresp"}])), ("dw", ("ev", "chunk", [{"k": "garbage"}]))]
    for base in cfgs:
        for hook in ("start", "api", "none"):
            cfg = dict(base, hook=hook)
            hello = [HELLO_OK] + ([CONNECT_OK] if cfg.get("login") else [])
            for split in (True, False):
                pre = []
                for ev in session_steps(cfg, random.Random(0), split):
                    pre += [ev, ("idle",)]
                for end in ends:
                    for g in ([], [("iter", 1)], [("idle",)]):
                        for after in ("complete", "fail", "disconnect", "second_start"):
                            if end[0] == "dw":
                                # a graceful disconnect() is waiting for the device's answer when the session is lost: the stop
                                # callback (which may reconnect) runs first, the disconnect() call resumes afterwards
                                sch = list(pre) + [("ev", "disconnect", False)] + g + [end[1]] + g
                            elif end[0] == "wf":
                                # the transport starts failing its writes; the next call (or a graceful disconnect) hits it
                                nxt = ("ev", "disconnect", False) if end[1] == "disconnect" else ("ev", "api", end[1])
                                sch = list(pre) + [("ev", "writefail")] + g + [nxt] + g + [("ev", "api", "switch_command")] + g
                            else:
                                sch = list(pre) + [("ev", "api", "switch_command")] + g + [end] + g
                            if end == ("tick",):
                                sch += [("tick",)] * 8      # keep-alive: ping, then the pong time-out ends the session
                            if after == "complete":
                                sch += [("ev", "resolve", "ok"), ("idle",), ("ev", "tcp", "ok"), ("idle",), ("ev", "finish"), ("idle",)]
                                sch += ([("ev", "handshake"), ("idle",)] if cfg.get("noise") else []) + [("ev", "chunk", hello), ("idle",), ("ev", "api", "switch_command"), ("idle",)]
                                sch += [("ev", "disconnect", True), ("idle",)]
                            elif after == "fail":
                                sch += [("ev", "resolve", "err"), ("idle",)]
                            elif after == "disconnect":
                                sch += [("ev", "disconnect", False), ("idle",)]
                            else:
                                sch += [("ev", "start"), ("idle",), ("ev", "resolve", "ok"), ("idle",), ("ev", "tcp", "err"), ("idle",)]
                            sch += [("ev", "connect"), ("idle",), ("ev", "resolve", "err"), ("idle",), ("tick",), ("tick",)]
                            out.append((cfg, sch))
    return out


def tokens_to_schedule(cfg: dict, toks: list, variant: int) -> list:
    """One history of abstract Client.tla events (printed by TLC, GenMode) -> environment events for the real
    client.  The translation only has to be plausible: the recorded execution is validated against the
    specification anyway, and events whose precondition does not hold in the real run are skipped."""
    hello = [HELLO_OK] + ([CONNECT_OK] if cfg.get("login") else [])
    gap_cycle = ([], [("iter", 1)], [("idle",)])
    sch: list = []
    for n, t in enumerate(toks):
        k = t[0]
        g = list(gap_cycle[(n + variant) % 3])
        if k == "start":
            sch += [("ev", "start")] + g
        elif k == "connect":
            sch += [("ev", "connect")] + g
        elif k == "finish":
            sch += [("ev", "finish")] + g
        elif k == "disconnect":
            sch += [("ev", "disconnect", bool(t[1]))] + g
        elif k == "api":
            sch += [("ev", "api", API_SAMPLE[(n + variant) % len(API_SAMPLE)])] + g
        elif k == "expect":
            sch += [("ev", "expect", t[1])] + g
        elif k == "hello":
            sch += ([("ev", "handshake"), ("iter", 1)] if cfg.get("noise") else []) + [("ev", "chunk", [{"k": "hello", "major": 1, "name": t[1]}] + ([CONNECT_OK] if cfg.get("login") else []))] + g
        elif k == "phase" and t[1] == "badname":
            sch += ([("ev", "handshake")] if cfg.get("noise") else [("iter", 1)]) + g
        elif k == "phase":
            res, kind = t[1], t[2]
            if kind == "start":
                if res == "ok":
                    sch += [("ev", "resolve", "ok"), ("iter", 2), ("ev", "tcp", "ok")] + g
                else:
                    sch += ([("ev", "resolve", "err")] if (n + variant) % 2 else [("ev", "resolve", "ok"), ("iter", 2), ("ev", "tcp", "err")]) + g
            else:
                pre = [("ev", "handshake"), ("iter", 1)] if cfg.get("noise") else []
                if res == "ok":
                    sch += pre + [("ev", "chunk", hello)] + g
                else:
                    sch += pre + [[("ev", "chunk", [HELLO_BAD])], [("ev", "chunk", [HELLO_OK, CONNECT_BAD])], [("ev", "eof")]][(n + variant) % 3] + g
        elif k == "progress":
            sch += ([("ev", "handshake")] if cfg.get("noise") else [("iter", 2)]) + g
        elif k == "close" and len(t) > 1 and t[1] == "discreq":
            sch += [("ev", "chunk", [{"k": "discreq"}])] + g
        elif k == "close":
            sch += [[("ev", "eof")], [("ev", "chunk", [{"k": "discreq"}])], [("ev", "reset"), ("iter", 1)], [("ev", "chunk", [{"k": "garbage"}])]][(n + variant) % 4] + g
        elif k == "writefail":
            sch += [("ev", "writefail")] + g
        elif k == "reset":
            sch += [("ev", "reset")] + g
        elif k == "discend":
            sch += ([("ev", "chunk", [{"k": "discresp"}])] if (n + variant) % 2 else [("tick",)]) + g
    sch += [("idle",), ("ev", "start"), ("idle",), ("ev", "resolve", "err"), ("idle",), ("tick",), ("tick",)]
    return sch


def names_family(cfgs: list) -> list:
    """Expected device name set / changed / cleared on the client at every point of a connect (before start, between
    the phases, after a session), devices that answer with the expected, another or no name, over several sessions
    of one client: a session exists only with a correctly named device, and the bad-name error only for a wrong name."""
    out = []
    for cfg in cfgs:
        for split in (True, False):
            for when in ("before", "between", "never"):
                if when == "between" and not split:
                    continue
                for exp in ("dev", "oth"):
                    for name1 in ("dev", "oth", ""):
                        for name2 in ("dev", "oth"):
                            sch = []
                            if when == "before":
                                sch += [("ev", "expect", exp), ("idle",)]
                            sch += [("ev", "start") if split else ("ev", "connect"), ("idle",), ("ev", "resolve", "ok"), ("idle",), ("ev", "tcp", "ok"), ("idle",)]
                            if when == "between":
                                sch += [("ev", "expect", exp), ("idle",)]
                            if split:
                                sch += [("ev", "finish"), ("idle",)]
                            if cfg.get("noise"):
                                sch += [("ev", "handshake"), ("idle",)]
                            sch += [("ev", "chunk", [{"k": "hello", "major": 1, "name": name1}] + ([CONNECT_OK] if cfg.get("login") else [])), ("idle",),
                                    ("ev", "api", "switch_command"), ("idle",), ("ev", "disconnect", True), ("idle",)]
                            # a second session of the same client: the device now answers as name2
                            sch += [("ev", "connect"), ("idle",), ("ev", "resolve", "ok"), ("idle",), ("ev", "tcp", "ok"), ("idle",)]
                            if cfg.get("noise"):
                                sch += [("ev", "handshake"), ("idle",)]
                            sch += [("ev", "chunk", [{"k": "hello", "major": 1, "name": name2}] + ([CONNECT_OK] if cfg.get("login") else [])), ("idle",),
                                    ("ev", "expect", "none"), ("ev", "disconnect", True), ("idle",), ("tick",)]
                            out.append((cfg, sch))
    return out
