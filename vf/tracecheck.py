"""Batch trace validation: many recorded executions, one TLC run.

Every trace gets a verdict:
* accepted;
* rejected at row l (no specification step explains the row) with the projected fields that differ (DIAG);
* drove the specification into a state that violates one of the invariants listed in the Trace .cfg
  (the steps were allowed, the property is not) - TLC stops there, so the trace is taken out and the rest
  of the batch is validated again.
"""

from __future__ import annotations

import json
import re

from . import tlaval
from .tlc import TLCFailure, run_tlc

_RE_REJECT = re.compile(r'<<"REJECT", (\d+), (\d+)>>')
_RE_TID = re.compile(r"/\\ tid = (\d+)")


def run_batch(ctx, module: str, traces: list, *, batch: int = 2000, timeout: float = 3000, spec_dir=None, tag: str = "") -> dict:
    """-> {"rejected": [(index, line)], "invariant": [(index, name)], "diags": {(index, line): sets}}"""
    rejected: list = []
    inv: list = []
    diags: dict = {}
    views: dict = {}
    for off in range(0, len(traces), batch):
        live = list(range(off, min(off + batch, len(traces))))
        while live:
            f = ctx.tmp / f"traces-{module}-{tag}-{off}.json"
            f.write_text(json.dumps([traces[i] for i in live]))
            r = run_tlc(module, workers=1, env={"TRACE_FILE": str(f)}, timeout=timeout, spec_dir=spec_dir, allow_violation=True)
            f.unlink()
            ctx.states += r.distinct
            ctx.transitions += r.generated
            ctx.tlc_runs.append({"module": module, "cfg": module + ".cfg", "distinct_states": r.distinct, "states_generated": r.generated,
                                 "depth": r.depth, "wall_s": round(r.wall_s, 2)})
            bad = [v for v in r.violated if v not in ("<postcondition>",)]
            if bad:
                tids = _RE_TID.findall(r.error_trace)
                if not tids:
                    raise TLCFailure(f"{module}: {bad} violated but the trace id cannot be found\n{r.error_trace[:3000]}")
                k = int(tids[-1]) - 1
                inv.append((live[k], bad[0]))
                del live[k]
                continue
            if "Model checking completed" not in r.stdout:
                raise TLCFailure(f"{module}: trace validation did not complete:\n{r.stdout[-3000:]}")
            for a, b in _RE_REJECT.findall(r.stdout):
                rejected.append((live[int(a) - 1], int(b)))
            for d in tlaval.extract_printed(r.stdout, "DIAG"):
                diags[(live[d[0] - 1], d[1])] = d[2]
                if len(d) > 3:
                    views[(live[d[0] - 1], d[1])] = d[3]
            ctx.traces_validated += len(live)
            break
    return {"rejected": rejected, "invariant": inv, "diags": diags, "views": views}


def validate(ctx, module: str, traces: list, *, cfg: str | None = None, batch: int = 2000, timeout: float = 1800, dfs: bool = False,
             env: dict | None = None) -> list[tuple[int, int]]:
    """Compatibility wrapper: rejected traces as [(index, first unexplained line)]; an invariant violated along
    a trace is reported as a rejection at line 0."""
    res = run_batch(ctx, module, traces, batch=batch, timeout=timeout)
    return res["rejected"] + [(i, 0) for i, _ in res["invariant"]]
