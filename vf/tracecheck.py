"""Batch trace validation: many recorded executions, one TLC run."""

from __future__ import annotations

import json
import re

from .tlc import TLCFailure

_RE_REJECT = re.compile(r'<<"REJECT", (\d+), (\d+)>>')


def validate(ctx, module: str, traces: list, *, cfg: str | None = None, batch: int = 2000,
             timeout: float = 1800, dfs: bool = False, env: dict | None = None) -> list[tuple[int, int]]:
    """Validate `traces` (JSON-able) against Trace module `module`.

    Returns [(trace_index, first_unexplained_line)] for rejected traces
    (0-based trace index, 1-based line).  Every trace gets a verdict.
    """
    rejected: list[tuple[int, int]] = []
    for off in range(0, len(traces), batch):
        part = traces[off : off + batch]
        f = ctx.tmp / f"traces-{module}-{off}.json"
        f.write_text(json.dumps(part))
        e = {"TRACE_FILE": str(f)}
        e.update(env or {})
        r = ctx.tlc(module, cfg, workers=1, env=e, timeout=timeout, dfs_queue=dfs, allow_violation=False)
        if "Model checking completed" not in r.stdout:
            raise TLCFailure(f"trace validation run did not complete:\n{r.stdout[-3000:]}")
        for line in r.raw_printed:
            m = _RE_REJECT.fullmatch(line)
            if m:
                rejected.append((off + int(m.group(1)) - 1, int(m.group(2))))
        ctx.traces_validated += len(part)
        f.unlink()
    return rejected
