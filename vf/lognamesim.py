"""util.build_log_name / host_is_name_part / address_is_local against LogName.tla.

TLC enumerates the cases and evaluates the rule; the real functions are called on the
rendered strings.  Returns the mismatches; what is done with them is the caller's business
(the log name is outside the listed properties: C20 records them as notes)."""

from __future__ import annotations

import json

from vf.tlc import parse_tagged


def render(a) -> str | None:
    if not a["labels"]:
        return None
    return ".".join(a["labels"]) + ("." if a["dot"] else "")


def expected_string(out) -> str:
    if out["k"] == "name":
        return out["name"]
    if out["k"] == "at":
        return f"{out['name']} @ {render(out['addr'])}"
    return render(out["addr"])


def run(ctx) -> dict:
    from aioesphomeapi import util

    r = ctx.tlc("LogName", workers=1, timeout=600)
    cases = list({json.dumps(c, sort_keys=True): c for c in parse_tagged(r.raw_printed, "LOGNAME")}.values())
    classes = list({json.dumps(c, sort_keys=True): c for c in parse_tagged(r.raw_printed, "CLASS")}.values())
    mism: list = []
    n = 0
    for c in classes:
        s = render(c["addr"])
        got = (util.host_is_name_part(s), util.address_is_local(s))
        n += 1
        if got != (c["namepart"], c["local"]):
            mism.append({"kind": "class", "addr": s, "expected": [c["namepart"], c["local"]], "got": list(got)})
    for c in cases:
        addrs = [render(a) for a in c["addrs"]]
        conn = render(c["conn"])
        want = expected_string(c["out"])
        for name in ([None, ""] if c["name"] == "" else [c["name"]]):
            n += 1
            try:
                got = util.build_log_name(name, list(addrs), conn)
            except Exception as ex:  # noqa: BLE001 - behaviour of the code under test
                got = "raised " + repr(ex)[:120]
            if got != want:
                mism.append({"kind": "logname", "name": name, "addrs": addrs, "conn": conn, "expected": want, "got": got})
    return {"n": n, "cases": len(cases), "classes": len(classes), "mismatches": mism}
