"""Independent reader of api.proto *text* (shares nothing with protobuf).

Returns messages (name, id, source, fields with type/label/number), and enums.
Also emits spec/gen/ProtoSchema.tla from the text for the TLA+ modules.
"""

from __future__ import annotations

import os
import re
from pathlib import Path

REPO = Path(os.environ.get("VERIF_REPO", "/repo"))


def _strip_comments(text: str) -> str:
    text = re.sub(r"/\*.*?\*/", "", text, flags=re.S)
    return re.sub(r"//[^\n]*", "", text)


def parse_proto(path: Path | None = None) -> dict:
    path = path or (REPO / "aioesphomeapi" / "api.proto")
    text = _strip_comments(path.read_text())
    messages: dict[str, dict] = {}
    enums: dict[str, dict[str, int]] = {}
    # top-level blocks (no nested messages in api.proto; nested braces only in options [..])
    for m in re.finditer(r"\b(message|enum)\s+(\w+)\s*\{", text):
        kind, name = m.group(1), m.group(2)
        i = m.end()
        depth = 1
        while depth:
            c = text[i]
            if c == "{":
                depth += 1
            elif c == "}":
                depth -= 1
            i += 1
        body = text[m.end() : i - 1]
        if kind == "enum":
            vals = {}
            for em in re.finditer(r"(\w+)\s*=\s*(-?\d+)\s*(?:\[[^\]]*\])?\s*;", body):
                vals[em.group(1)] = int(em.group(2))
            enums[name] = vals
        else:
            msg = {"name": name, "id": None, "source": "SOURCE_BOTH", "fields": []}
            mid = re.search(r"option\s*\(\s*id\s*\)\s*=\s*(\d+)\s*;", body)
            if mid:
                msg["id"] = int(mid.group(1))
            ms = re.search(r"option\s*\(\s*source\s*\)\s*=\s*(\w+)\s*;", body)
            if ms:
                msg["source"] = ms.group(1)
            for fm in re.finditer(r"(?m)^\s*(repeated\s+|optional\s+)?([\w.]+)\s+(\w+)\s*=\s*(\d+)\s*(\[[^\]]*\])?\s*;", body):
                if fm.group(2) == "option":
                    continue
                msg["fields"].append(
                    {
                        "label": (fm.group(1) or "").strip() or "single",
                        "type": fm.group(2),
                        "name": fm.group(3),
                        "number": int(fm.group(4)),
                        "deprecated": bool(fm.group(5) and "deprecated" in fm.group(5)),
                    }
                )
            messages[name] = msg
    return {"messages": messages, "enums": enums}


def ids(schema: dict) -> dict[int, str]:
    out: dict[int, str] = {}
    for m in schema["messages"].values():
        if m["id"] is not None and m["id"] != 0:
            out.setdefault(m["id"], m["name"]) if m["id"] not in out else out.__setitem__(m["id"], out[m["id"]] + "|" + m["name"])
    return out


def emit_tla(schema: dict, dest: Path) -> None:
    """spec/gen/ProtoSchema.tla: MsgIds (sequence of <<id, name, source>>)."""
    rows = []
    for m in schema["messages"].values():
        if m["id"]:
            rows.append((m["id"], m["name"], m["source"]))
    rows.sort()
    lines = ["---------------------------- MODULE ProtoSchema ----------------------------",
             "\\* GENERATED at check time from the text of api.proto by vf/protoschema.py",
             "EXTENDS Naturals, Sequences",
             "ProtoMsgs == <<"]
    lines.append(",\n".join(f'  [id |-> {i}, name |-> "{n}", source |-> "{s}"]' for i, n, s in rows))
    lines.append(">>")
    en = []
    import os as _os

    for name, vals in sorted(schema["enums"].items()):
        # value names carry the enum's name as a prefix (LOCK_STATE_LOCKED): `s` is the name without it
        pre = _os.path.commonprefix(list(vals)) if len(vals) > 1 else ""
        pre = pre[: pre.rfind("_") + 1] if "_" in pre else ""
        vs = ", ".join(f'[n |-> "{k}", s |-> "{k[len(pre):]}", v |-> {v}]' for k, v in vals.items())
        en.append(f'  [name |-> "{name}", values |-> <<{vs}>>]')
    lines.append("ProtoEnums == <<")
    lines.append(",\n".join(en))
    lines.append(">>")
    mf = []
    for m in schema["messages"].values():
        fs = ", ".join(f'[name |-> "{f["name"]}", type |-> "{f["type"]}", label |-> "{f["label"]}"]' for f in m["fields"])
        mf.append(f'  [msg |-> "{m["name"]}", fields |-> <<{fs}>>]')
    lines.append("ProtoMsgFields == <<")
    lines.append(",\n".join(mf))
    lines.append(">>")
    lines.append("=============================================================================")
    dest.parent.mkdir(parents=True, exist_ok=True)
    dest.write_text("\n".join(lines) + "\n")


if __name__ == "__main__":
    s = parse_proto()
    i = ids(s)
    print(len(s["messages"]), "messages", len(i), "ids", min(i), max(i), len(s["enums"]), "enums")
