"""The public API surface of APIClient, discovered by introspection, with synthesised
arguments so that every method can be called in the simulator (C19 gate sweep, C13b
direction sweep).  A method whose arguments cannot be synthesised is reported as a
coverage gap, never silently skipped."""

from __future__ import annotations

import inspect
import re

# not "commands, subscriptions or requests": connection management and local setters
NOT_API = {"connect", "start_connection", "finish_connection", "disconnect", "set_debug", "set_cached_name_if_unset"}


async def _acb(*a, **k):
    return None


def _cb(*a, **k):
    return None


def _value_for(method: str, name: str, ann: str):
    import aioesphomeapi.model as model

    ann = ann.strip()
    base = re.sub(r"\s*\|\s*None$", "", ann).strip()
    if "Callable" in base:
        return _acb if "Coroutine" in base else _cb
    if name == "service":
        return model.UserService(name="svc", key=1, args=[model.UserServiceArg(name="a", type=model.UserServiceArgType.INT)])
    if base == "ExecuteServiceDataType":
        return {"a": 1}
    if base.startswith("dict["):
        return {"k": "v"}
    if base.startswith("list[str]"):
        return ["w1"]
    if base.startswith("tuple[float, float, float]"):
        return (0.25, 0.5, 0.75)
    if base == "int":
        return {"address": 0xAABBCCDDEEFF, "handle": 42, "year": 2024, "month": 2, "day": 29, "hour": 23, "minute": 59, "second": 58}.get(name, 1)
    if base == "float":
        return 1.5
    if base == "str":
        return "s"
    if base == "bool":
        return True
    if base == "bytes":
        return b"\x01\x02"
    if hasattr(model, base):
        cls = getattr(model, base)
        try:
            return list(cls)[-1]
        except TypeError:
            return None
    raise KeyError(f"{method}.{name}: {ann}")


def surface():
    """-> (list of (name, is_async, kwargs), gaps)"""
    from aioesphomeapi import APIClient

    out, gaps = [], []
    for n, f in inspect.getmembers(APIClient, predicate=inspect.isfunction):
        if n.startswith("_") or n in NOT_API:
            continue
        sig = inspect.signature(f)
        kwargs = {}
        try:
            for pn, p in sig.parameters.items():
                if pn == "self":
                    continue
                ann = p.annotation if isinstance(p.annotation, str) else getattr(p.annotation, "__name__", str(p.annotation))
                kwargs[pn] = _value_for(n, pn, ann)
        except KeyError as e:
            gaps.append(str(e))
            continue
        out.append((n, inspect.iscoroutinefunction(f), kwargs))
    return out, gaps
