"""Deterministic virtual-time asyncio event loop owned by the checker.

``SimLoop`` is a real ``asyncio.BaseEventLoop`` (tasks, futures, call_soon,
call_at, timeouts all behave as in CPython) without a selector and with a
virtual clock.  One ``iteration()`` reproduces ``BaseEventLoop._run_once``:
due timers are moved to the ready queue, then exactly the callbacks that were
ready at that moment run; callbacks scheduled meanwhile wait for the next
iteration.  The owner can run a single callback at a time (``run_one``) and
look at the whole timer heap and ready queue between any two callbacks.
"""

from __future__ import annotations

import asyncio
import heapq
from asyncio import base_events, events


class SimLoop(base_events.BaseEventLoop):
    def __init__(self) -> None:
        super().__init__()
        self._now = 0.0
        self.unhandled: list[dict] = []
        self.harness_errors: list[str] = []
        self.set_exception_handler(self._on_exception)
        self._batch = 0  # callbacks left to run in the current iteration
        self.callbacks_run = 0
        self.iterations = 0
        self.after_callback = None  # observer(handle) after each callback
        self._clock_resolution = 1e-9

    # ---- BaseEventLoop plumbing that needs a selector in the real thing
    def time(self) -> float:
        return self._now

    def _process_events(self, event_list) -> None:  # pragma: no cover
        pass

    def _write_to_self(self) -> None:
        pass

    def _on_exception(self, loop, context) -> None:
        self.unhandled.append(context)
        # an exception raised by the harness's own code inside a loop callback (innermost frame in /verif/vf) would
        # silently drop an event: it is kept apart and turned into a machinery failure by the runners
        exc = context.get("exception")
        tb = getattr(exc, "__traceback__", None)
        last = None
        while tb is not None:
            last = tb
            tb = tb.tb_next
        # (the environment fakes - simnet, world, devices - raise on purpose, as the OS / the peer would)
        if last is not None and last.tb_frame.f_code.co_filename.rsplit("/", 1)[-1] in ("connsim.py", "clientsim.py", "sessionsim.py", "reconsim.py"):
            self.harness_errors.append(f"{type(exc).__name__}: {exc} at {last.tb_frame.f_code.co_filename}:{last.tb_lineno}")

    # ---- activation
    def install(self) -> "SimLoop":
        import threading

        self._thread_id = threading.get_ident()  # is_running() -> True: eager tasks start eagerly
        asyncio.set_event_loop(self)
        events._set_running_loop(self)
        return self

    def uninstall(self) -> None:
        self._thread_id = None
        events._set_running_loop(None)
        asyncio.set_event_loop(None)

    # ---- inspection
    def armed(self) -> list[float]:
        """Deadlines of all armed (not cancelled) timers."""
        return sorted(h._when for h in self._scheduled if not h._cancelled)

    def armed_handles(self):
        return [h for h in self._scheduled if not h._cancelled]

    def ready_count(self) -> int:
        return sum(1 for h in self._ready if not h._cancelled)

    def idle(self) -> bool:
        return self.ready_count() == 0

    def next_deadline(self) -> float | None:
        a = self.armed()
        return a[0] if a else None

    # ---- stepping
    def _move_due_timers(self) -> None:
        end = self._now + self._clock_resolution
        while self._scheduled:
            h = self._scheduled[0]
            if h._cancelled:
                heapq.heappop(self._scheduled)
                h._scheduled = False
                continue
            if h._when >= end:
                break
            heapq.heappop(self._scheduled)
            h._scheduled = False
            self._ready.append(h)

    def begin_iteration(self) -> int:
        """Start an iteration; returns the number of callbacks in its batch."""
        self._move_due_timers()
        self._batch = len(self._ready)
        self.iterations += 1
        return self._batch

    def run_one(self) -> bool:
        """Run the next callback of the current batch.  False when batch is done."""
        while self._batch > 0:
            self._batch -= 1
            h = self._ready.popleft()
            if h._cancelled:
                continue
            h._run()
            self.callbacks_run += 1
            if self.after_callback is not None:
                self.after_callback(h)
            h = None
            return True
        return False

    def iteration(self) -> int:
        n = 0
        self.begin_iteration()
        while self.run_one():
            n += 1
        return n

    def run_until_idle(self, max_iter: int = 10000) -> int:
        """Run iterations (without advancing time) until nothing is ready."""
        n = 0
        self._move_due_timers()
        while self._ready and n < max_iter:
            self.iteration()
            n += 1
            self._move_due_timers()
        if n >= max_iter:
            raise RuntimeError("SimLoop: livelock (ready queue never drains)")
        return n

    def advance_to(self, when: float) -> None:
        """Advance the clock to `when`, firing everything due on the way, in order."""
        self.run_until_idle()
        while True:
            nd = self.next_deadline()
            if nd is None or nd > when:
                break
            self._now = max(self._now, nd)
            self.run_until_idle()
        self._now = max(self._now, when)
        self.run_until_idle()

    def advance_to_next_timer(self) -> bool:
        self.run_until_idle()
        nd = self.next_deadline()
        if nd is None:
            return False
        self._now = max(self._now, nd)
        return True

    def set_time(self, when: float) -> None:
        assert when >= self._now
        self._now = when

    def run_coro(self, coro, max_time: float = 1e9):
        """Drive the loop until coro finishes (advancing virtual time as needed)."""
        task = self.create_task(coro)
        while not task.done():
            self.run_until_idle()
            if task.done():
                break
            nd = self.next_deadline()
            if nd is None:
                raise RuntimeError("SimLoop: task pending but nothing scheduled (hang)")
            if nd > max_time:
                raise RuntimeError("SimLoop: virtual time bound exceeded")
            self._now = max(self._now, nd)
        return task.result()

    def shutdown(self) -> None:
        # cancel everything that is left so that no "never awaited" noise leaks
        for t in list(asyncio.all_tasks(self)):
            t.cancel()
        try:
            self.run_until_idle()
        except Exception:  # noqa: BLE001
            pass
        self._ready.clear()
        self._scheduled.clear()
        self.uninstall()
        # BaseEventLoop.close() without selector
        self._closed = True


def new_loop() -> SimLoop:
    return SimLoop().install()


class debug_logging:
    """Context manager: while active, the library's loggers really emit DEBUG records (formatted into a sink that is
    thrown away) - a debug-only formatting path that raises, or changes what is sent, shows like any other behaviour."""

    def __init__(self, on: bool) -> None:
        self.on = on

    def __enter__(self):
        if not self.on:
            return self
        import io
        import logging

        self.prev_disable = logging.root.manager.disable
        logging.disable(logging.NOTSET)
        self.logger = logging.getLogger("aioesphomeapi")
        self.prev_level, self.prev_prop = self.logger.level, self.logger.propagate
        self.handler = logging.StreamHandler(io.StringIO())
        self.handler.setFormatter(logging.Formatter("%(name)s %(message)s"))
        self.logger.addHandler(self.handler)
        self.logger.setLevel(logging.DEBUG)
        self.logger.propagate = False
        return self

    def __exit__(self, *exc):
        if self.on:
            import logging

            self.logger.removeHandler(self.handler)
            self.logger.setLevel(self.prev_level)
            self.logger.propagate = self.prev_prop
            logging.disable(self.prev_disable)
        return False
