"""A simulated world around the real APIConnection / APIClient / ReconnectLogic.

* the event loop is a SimLoop (virtual time, one callback at a time)
* host resolution, TCP connect and loop.create_connection are environment-owned
* the device is an independent encoder/decoder for both framings
* every user operation is a task whose outcome, completion time and error class
  are recorded; every loop callback can be followed by an observation
"""

from __future__ import annotations

import asyncio
import base64
import random
import socket as _socket

from . import devices, protoschema, simloop, simnet

_SCHEMA = None


def schema():
    global _SCHEMA
    if _SCHEMA is None:
        s = protoschema.parse_proto()
        byid = {}
        byname = {}
        for m in s["messages"].values():
            if m["id"]:
                byid[m["id"]] = m["name"]
                byname[m["name"]] = m["id"]
        _SCHEMA = (s, byid, byname)
    return _SCHEMA


def msg_id(name: str) -> int | None:
    return schema()[2].get(name)


def msg_name(id_: int) -> str | None:
    return schema()[1].get(id_)


def pb(_msg: str, **kw):
    from aioesphomeapi import api_pb2

    return getattr(api_pb2, _msg)(**kw)


def classify(exc: BaseException | None) -> str:
    """Error class name as the specifications use it."""
    if exc is None:
        return "ok"
    from aioesphomeapi.core import APIConnectionError

    if isinstance(exc, asyncio.CancelledError):
        return "Cancelled"
    if isinstance(exc, APIConnectionError):
        return type(exc).__name__
    return "RAW:" + type(exc).__name__


class DeviceCodec:
    """Device side of one TCP connection (plaintext or Noise)."""

    def __init__(self, rng: random.Random, noise_psk: bytes | None, name: str | None):
        self.rng = rng
        self.noise = noise_psk is not None
        self.name = name
        self.inbuf = b""
        self.client_msgs: list[tuple[int, bytes]] = []  # decoded application messages
        self.format_errors: list[str] = []
        self.nd = devices.NoiseDevice(noise_psk, name) if self.noise else None
        self.client_hs_body: bytes | None = None
        self.raw_seen = 0

    # ---- client -> device
    def on_client_bytes(self, data: bytes) -> list[tuple[int, bytes]]:
        """Decode what the client wrote; returns new application messages."""
        new: list[tuple[int, bytes]] = []
        if not self.noise:
            frames, err = devices.decode_plain_stream(data)
            if err:
                self.format_errors.append(err)
            new = frames
        else:
            try:
                bodies = self.nd.feed_client_bytes(data)
            except ValueError as e:
                self.format_errors.append(str(e))
                bodies = []
            for body in bodies:
                self.raw_seen += 1
                if self.raw_seen == 1:
                    if body != b"":
                        self.format_errors.append("first client frame is not the empty hello")
                    continue
                if self.raw_seen == 2:
                    self.client_hs_body = body
                    continue
                r = self.nd.decrypt_client(body, self.nd.rx_nonce)
                if r is None:
                    self.format_errors.append(f"client frame does not open with nonce {self.nd.rx_nonce}")
                    continue
                self.nd.rx_nonce += 1
                t, payload, declared = r
                if declared != len(payload):
                    self.format_errors.append("inner length field wrong")
                new.append((t, payload))
        self.client_msgs.extend(new)
        return new

    # ---- device -> client
    def encode(self, type_: int, payload: bytes) -> bytes:
        if not self.noise:
            return devices.plain_frame(type_, payload)
        return self.nd.data_frame(type_, payload)

    def noise_hello(self, proto: int = 1, name_override=...):
        if name_override is not ...:
            old = self.nd.name
            self.nd.name = name_override
            try:
                return self.nd.hello_frame(proto)
            finally:
                self.nd.name = old
        return self.nd.hello_frame(proto)

    def noise_handshake(self) -> bytes:
        return self.nd.handshake_reply(self.client_hs_body)


class Op:
    def __init__(self, name: str, task: asyncio.Task, started: float):
        self.name = name
        self.base = name
        self.task = task
        self.started = started
        self.finished_at: float | None = None
        self.outcome = "pending"
        self.result = None
        self.exc: BaseException | None = None
        self.reported = False

    def poll(self, now: float) -> bool:
        """Returns True when the op has just completed."""
        if self.outcome != "pending" or not self.task.done():
            return False
        self.finished_at = now
        if self.task.cancelled():
            self.outcome = "Cancelled"
        else:
            e = self.task.exception()
            self.exc = e
            if e is None:
                self.outcome = "ok"
                self.result = self.task.result()
            else:
                self.outcome = classify(e)
        return True


class World:
    def __init__(
        self,
        *,
        seed: int = 0,
        noise: bool = False,
        expected_name: str | None = None,
        password: str | None = None,
        keepalive: float = 20.0,
        dev_name: str | None = "dev",
        addresses=("10.0.0.1",),
        client: bool = False,
        naddr: int = 1,
        debug: bool = False,
    ) -> None:
        import aiohappyeyeballs

        import aioesphomeapi.host_resolver as hr
        from aioesphomeapi.connection import APIConnection, ConnectionParams
        from aioesphomeapi.zeroconf import ZeroconfManager

        self.rng = random.Random(seed)
        self.loop = simloop.new_loop()
        self.hr = hr
        self.aiohe = aiohappyeyeballs
        self.naddr = naddr
        self.noise = noise
        self.psk = self.rng.randbytes(32) if noise else None
        self.dev_name = dev_name
        self._orig = (hr.async_resolve_host, aiohappyeyeballs.start_connection)
        hr.async_resolve_host = self._resolve
        aiohappyeyeballs.start_connection = self._start_connection
        self.loop.create_connection = self._create_connection
        self.resolve_futs: list[asyncio.Future] = []
        self.tcp_futs: list[asyncio.Future] = []
        self.tcp_call_times: list[float] = []
        self.socks: list[simnet.SimSocket] = []
        self.transports: list[simnet.SimTransport] = []
        self.codecs: list[DeviceCodec] = []
        self.stops: list[bool] = []
        self.ops: dict[str, Op] = {}
        self.step_writes: list[str] = []  # message names written since last drain
        self.step_frames: list = []  # (type id, payload) of the same frames
        self.step_deliv: list = []
        self.write_calls_step = 0
        self.fail_writes: BaseException | None = None
        self.params = ConnectionParams(
            addresses=list(addresses),
            port=6053,
            password=password,
            client_info="verif",
            keepalive=keepalive,
            zeroconf_manager=ZeroconfManager(),
            noise_psk=base64.b64encode(self.psk).decode() if noise else None,
            expected_name=expected_name,
        )
        self.expected_password = password  # what a ConnectRequest must carry (client runs set it to the client's own)
        self.conn = None
        if not client:
            # debug: the library's debug-logging paths are on (what it sends, delivers and decides must not depend on them)
            self.conn = APIConnection(self.params, self._on_stop, bool(debug), None)
        self.closed = False

    # ------------------------------------------------------------ patches
    def _on_stop(self, expected: bool) -> None:
        self.stops.append(bool(expected))

    async def _resolve(self, addresses, port, zc=None):
        fut = self.loop.create_future()
        self.resolve_futs.append(fut)
        return await fut

    async def _start_connection(self, addr_infos, *, happy_eyeballs_delay=None, interleave=None, loop=None, **kw):
        fut = self.loop.create_future()
        self.tcp_futs.append(fut)
        self.tcp_call_times.append(self.loop.time())
        try:
            return await fut
        except BaseException:
            # like aiohappyeyeballs: a socket that is already connected when the
            # attempt is cancelled is closed by the library
            if fut.done() and not fut.cancelled() and fut.exception() is None:
                fut.result().close()
            raise

    async def _create_connection(self, protocol_factory, host=None, port=None, *, sock=None, **kw):
        protocol = protocol_factory()
        waiter = self.loop.create_future()
        tr = simnet.SimTransport(self.loop, sock, protocol, waiter)
        codec = DeviceCodec(self.rng, self.psk, self.dev_name)
        tr.on_write = lambda data, codec=codec: self._on_write(codec, data)
        tr.fail_writes = self.fail_writes
        self.transports.append(tr)
        self.codecs.append(codec)
        try:
            await waiter
        except BaseException:
            tr.close()
            raise
        return tr, protocol

    def _on_write(self, codec: DeviceCodec, data: bytes) -> None:
        self.write_calls_step += 1
        for t, payload in codec.on_client_bytes(data):
            name = msg_name(t) or f"id{t}"
            if name == "GetTimeResponse":
                # the answer to the device's time request carries the current time in seconds since the epoch
                import time

                from aioesphomeapi import api_pb2

                r = api_pb2.GetTimeResponse()
                try:
                    r.ParseFromString(payload)
                    if abs(int(r.epoch_seconds) - int(time.time())) > 120:
                        name += ":wrong_time"
                except Exception:  # noqa: BLE001 (what was written does not decode: the format checks report it)
                    name += ":undecodable"
            elif name == "ConnectRequest":
                from aioesphomeapi import api_pb2

                r = api_pb2.ConnectRequest()
                try:
                    r.ParseFromString(payload)
                    if r.password != (self.expected_password or ""):
                        name += ":wrong_password"
                except Exception:  # noqa: BLE001
                    name += ":undecodable"
            self.step_writes.append(name)
            self.step_frames.append((t, payload))

    # ------------------------------------------------------- current objects
    @property
    def tr(self) -> simnet.SimTransport | None:
        return self.transports[-1] if self.transports else None

    @property
    def codec(self) -> DeviceCodec | None:
        return self.codecs[-1] if self.codecs else None

    @property
    def sock(self) -> simnet.SimSocket | None:
        return self.socks[-1] if self.socks else None

    # --------------------------------------------------------- env actions
    def default_addrs(self):
        hr = self.hr
        return [hr.AddrInfo(family=_socket.AF_INET, type=_socket.SOCK_STREAM, proto=_socket.IPPROTO_TCP,
                            sockaddr=hr.IPv4Sockaddr(address=f"10.0.0.{i + 1}", port=6053)) for i in range(self.naddr)]

    def pending(self, futs):
        for f in futs:
            if not f.done():
                return f
        return None

    def resolve_ok(self) -> bool:
        f = self.pending(self.resolve_futs)
        if f is None:
            return False
        f.set_result(self.default_addrs())
        return True

    def resolve_err(self, exc=None) -> bool:
        f = self.pending(self.resolve_futs)
        if f is None:
            return False
        from aioesphomeapi.core import ResolveAPIError

        f.set_exception(exc or ResolveAPIError("no such host"))
        return True

    def tcp_ok(self, broken: bool = False) -> bool:
        f = self.pending(self.tcp_futs)
        if f is None:
            return False
        s = simnet.SimSocket(broken=broken)
        self.socks.append(s)
        f.set_result(s)
        return True

    def tcp_err(self, exc=None) -> bool:
        f = self.pending(self.tcp_futs)
        if f is None:
            return False
        f.set_exception(exc or ConnectionRefusedError(111, "refused"))
        return True

    def chunk(self, data: bytes) -> bool:
        tr = self.tr
        return bool(tr and tr.feed(data))

    def send_msgs(self, msgs: list[tuple[int, bytes]]) -> bool:
        """Device sends messages in ONE chunk."""
        c = self.codec
        if c is None or not self.tr or not self.tr.can_receive():
            return False
        data = b"".join(c.encode(t, p) for t, p in msgs)
        return self.tr.feed(data)

    def eof(self) -> bool:
        return bool(self.tr and self.tr.feed_eof())

    RESET_EXC = {"reset": lambda: ConnectionResetError(104, "reset by peer"), "timedout": lambda: TimeoutError(110, "Connection timed out"),
                 "oserr": lambda: OSError(113, "No route to host"), "oserr2": lambda: BrokenPipeError(32, "Broken pipe")}

    def reset_as(self, flavor: str) -> bool:
        return bool(self.tr and self.tr.feed_error(self.RESET_EXC[flavor]()))

    def reset(self) -> bool:
        # what recv() fails with varies: a reset, a keep-alive time-out of the kernel (the builtin TimeoutError, which
        # asyncio.TimeoutError aliases), an unreachable host, a broken pipe - the library treats them alike
        return self.reset_as(self.rng.choice(("reset", "reset", "timedout", "oserr", "oserr2")))

    def set_write_failure(self, exc: BaseException | None) -> None:
        self.fail_writes = exc
        if self.tr:
            self.tr.fail_writes = exc

    # ---------------------------------------------------------- operations
    def spawn(self, name: str, coro) -> Op:
        task = self.loop.create_task(coro)
        op = Op(name, task, self.loop.time())
        self.ops[name] = op
        return op

    def poll_ops(self) -> list[Op]:
        now = self.loop.time()
        return [op for op in self.ops.values() if op.poll(now)]

    def drain_step(self):
        w, d, n = self.step_writes, self.step_deliv, self.write_calls_step
        self.step_writes, self.step_deliv, self.write_calls_step = [], [], 0
        self.step_frames = []
        return w, d, n

    # ---------------------------------------------------------- projection
    def conn_state(self, conn=None) -> str:
        conn = conn or self.conn
        return {"INITIALIZED": "init", "SOCKET_OPENED": "opened", "HANDSHAKE_COMPLETE": "hsdone",
                "CONNECTED": "connected", "CLOSED": "closed"}[conn.connection_state.name]

    def sock_state(self) -> str:
        s = self.sock
        return "none" if s is None else ("closed" if s.closed else "open")

    def tr_state(self) -> str:
        t = self.tr
        return "none" if t is None else ("closed" if t.is_closing() else "open")

    def timers_ms(self) -> list[int]:
        return [int(round(t * 1000)) for t in self.loop.armed()]

    def now_ms(self) -> int:
        return int(round(self.loop.time() * 1000))

    # -------------------------------------------------------------- finish
    def close(self) -> None:
        if self.closed:
            return
        self.closed = True
        try:
            self.loop.shutdown()
        finally:
            self.hr.async_resolve_host, self.aiohe.start_connection = self._orig
