"""Regenerates /verif/MANIFEST.json from the table below (python3 vf/manifest.py)."""

import json
from pathlib import Path

ROOT = Path(__file__).resolve().parent.parent

TB = "TLC 1.8 and the TLA+ modules in /verif/spec; the harness in /verif/vf (SimLoop virtual-time asyncio loop, device simulators); CPython asyncio Task/Future; protobuf"

CHECKS = {
    "C01": dict(
        technique="TLA+ spec PlainHelper.tla model-checked by TLC (parser transcription refines 'frames complete in received prefix' for all segmentations); edge-cover behaviours replayed into APIPlaintextFrameHelper; recorded traces validated by TLC (TracePlain.tla)",
        text="Exhaustive TLC check of the parser transcription against the abstract reassembly meaning on bounded frame alphabets and all segmentations; every model transition replayed into the real helper; long random/adversarial streams validated as traces of the specification.",
        design="§3.2, §6 C01",
        note="Payload bytes are opaque in the specification and materialised by the harness. " + TB,
    ),
}

_CONN_TECH = "TLA+ spec Connection.tla model-checked by TLC (all interleavings of user calls, device events, faults and task resumptions in bounded instances); TLC-generated and systematic/random schedules executed on the real APIConnection in a virtual-time loop; recorded traces validated by TLC against TraceConnection.tla"
_CONN_NOTE = "Schedules are those asyncio's _run_once can produce; SimTransport mirrors _SelectorSocketTransport; a second start/finish while the first is pending is outside the domain. " + TB

CHECKS.update({
    "C02": dict(
        technique="TLA+ specs Wire.tla/Writer.tla: TLC enumerates packets, batches and write sequences and computes the expected header bytes/nonces; behaviours replayed into write_packets; send_messages sessions validated by TLC (TraceWriter.tla) with an independent explicit-nonce AEAD decoder",
        text="Exhaustive enumeration of boundary types/lengths and batch sequences in the bounds for both framings, replayed into the real helpers; long sessions over every client-originated message class validated as traces.",
        design="§3.1, §6 C02",
        note="Noise payloads > 65515 bytes are outside the domain; protobuf serialisation and cryptography's ChaCha20Poly1305 are trusted. " + TB,
    ),
    "C03": dict(
        technique="TLA+ spec NoiseHelper.tla (symbolic crypto) model-checked by TLC for all cut sets; edge-cover behaviours replayed against a stock noiseprotocol responder; recorded sessions validated by TLC (TraceNoise.tla)",
        text="Readiness only after the handshake, deliveries equal what the responder encrypted, name rule: TLC-checked on the symbolic model for all segmentations, replayed and trace-validated against an independent conformant responder.",
        design="§3.3, §6 C03",
        note="The stock noiseprotocol responder and cryptography are trusted to be standards-conformant; crypto is symbolic in the specification. " + TB,
    ),
    "C04": dict(
        technique="TLA+ spec NoiseHelper.tla with every single-frame deviation as a named transformation, model-checked by TLC (prefix invariant, error-class table); each materialised on a live session and replayed; deviating sessions validated by TLC (TraceNoise.tla); key-string classes and plaintext preamble cases enumerated",
        text="Every deviation x frame index x cut set in the bounds is model-checked and replayed against the real helper; random deviating sessions are trace-validated; key strings of every length 0..48 and malformed classes are tried.",
        design="§3.3, §6 C04",
        note="Handshake bodies malformed in ways the statement does not list must fail closed with some error (class not compared). " + TB,
    ),
    "C05": dict(technique=_CONN_TECH, text="Action properties ForwardOnly/ClosedFinal and ConnectedFlag model-checked over all interleavings in the bounds; the real connection's state is sampled after every loop callback and every trace must be a behaviour of the specification.", design="§3.5, §6 C05", note=_CONN_NOTE),
    "C07": dict(technique=_CONN_TECH, text="Stop-callback invariants (at most once, iff connected was reached, argument = expected flag) model-checked; close causes injected singly and in pairs at every stage on the real connection, the stop-callback log is part of every validated trace row.", design="§3.5, §6 C07", note=_CONN_NOTE),
    "C08": dict(technique=_CONN_TECH, text="Release/silence invariants model-checked; a close cause injected before every step of connect/handshake/login/steady/disconnect with every gap; after every callback socket/transport/writes/deliveries and at every idle point the whole timer heap are compared with the specification.", design="§3.5, §6 C08", note=_CONN_NOTE),
    "C09": dict(technique=_CONN_TECH, text="Every operation outcome (class, virtual completion time) is part of the validated trace; idle rows require the specification to have nothing left to run (hang detection); first-cause rule encoded in the expected classes.", design="§3.5, §6 C09", note=_CONN_NOTE + " Error classes the statement does not name are only required to be in the hierarchy."),
})

CHECKS.update({
    "C06": dict(technique=_CONN_TECH + "; dedicated slice MC_Connection_hello.cfg (invariants SessionOnlyIfCompatible, FailedConnectClosedNoStop) and hello/login verdict family", text="Invariants over the responses the finish phase based its verdict on (major <= 2, name rule, password verdict) and 'failed connect => closed, no stop callback' model-checked for all 8 configurations; version x name x verdict x order x chunking x framing family executed on the real connection, every finish outcome class is part of the validated trace.", design="§3.5, §6 C06", note=_CONN_NOTE + " An empty/absent device name is accepted even when a name is expected (LegacyNoName reading)."),
    "C10": dict(technique=_CONN_TECH + "; keep-alive slice MC_Connection_keepalive.cfg with history variables (PingIffIdle, DeathExact, NoLateDeath, PongTimerExact, DeathWindow)", text="Keep-alive formulas model-checked on the K/4 grid to 10K with ties in both orders; TLC-generated and random arrival schedules (K in {0.5,4,15,20,60}s, K/16 grid, up to 200 periods) run on the real connection; the virtual instant of every ping and of the death is a validated trace row.", design="§3.5, §6 C10", note=_CONN_NOTE + " A message and a timer due at the same instant may run in either order; the window is closed at 5.5K for that tie."),
    "C11": dict(technique=_CONN_TECH + "; calls slices MC_Connection_calls*.cfg with the arrival history (CallResultExact, CallLeavesNothing, CallTimeoutExact)", text="Result = accepted arrivals after the request up to the first stop (declaratively, from the arrival history), exact timeouts and 'leaves nothing' model-checked for <= 3 concurrent calls; handler-table size, waiter-set size and the timer heap are part of every validated row of the real connection's traces.", design="§3.5, §6 C11", note=_CONN_NOTE),
    "C12": dict(technique=_CONN_TECH + "; dispatch slice MC_Connection_dispatch.cfg (action property DispatchExact with re-entrant subscriber scripts) and type-id sweeps with a wildcard subscriber", text="Closed-form 'registered at that moment' delivery, replies to peer requests, no effect of undefined ids and protocol error on undecodable payloads model-checked; id sweeps (all protocol ids, undefined ids incl. 0, both framings, payload classes) and subscriber scripts run on the real connection and validated by TLC.", design="§3.5, §6 C12", note=_CONN_NOTE + " Expected class per id comes from the text of api.proto via an independent reader."),
})

CHECKS.update({
    "C19": dict(technique="TLA+ spec Client.tla (client pointer, connect phases, pending disconnects, API gate) model-checked by TLC (NeverWedged, RefusedOnlyWhenBusy, OneLive, GateSound); stage-by-stage disturbance histories, API gate sweeps over the whole public surface and random multi-session histories executed on the real APIClient in the virtual-time loop; traces validated by TLC against TraceClient.tla", text="Design invariants model-checked over all histories of <= 3 connections; on the real client every row (pointer identity, state of every connection object, outcomes, writes of refused calls) must be a step of the specification, so a pointer left on a dead connection or a gate that lets a call through is a rejected trace.", design="§3.6, §6 C19", note="finish_connection without a successful start_connection is outside the domain; a start issued while an abandoned attempt is still unwinding may be refused. " + TB),
})

CHECKS.update({
    "C13": dict(technique="TLA+ module Registry.tla over ProtoSchema.tla (generated at check time from the text of api.proto by an independent reader): TLC evaluates table equality, uniqueness/contiguity, positional lookup, descriptor agreement and the direction statements on a snapshot of the library's tables, on what a live connection decoded each id as, and on the types written/subscribed by every public API call in the simulator", text="Every statement of the property is a TLC-evaluated formula over the complete finite tables (exhaustive); direction is decided for the whole public API surface (introspected) plus scripted voice-assistant and peer-request follow-ups on the real client.", design="§3.9, §6 C13", note="TLC is used here as an evaluator of set equalities over finite tables; the .proto text reader is trusted for the subset of the language api.proto uses. " + TB),
})

_SESS_TECH = "TLA+ spec Session.tla (operations and subscriptions above an established session: op x message -> effect table, subscriber sets, camera parts per subscription and key, voice-assistant start tasks) model-checked by TLC; systematic and random histories executed on the real APIClient over the simulated device; every callback row (outcomes with results, user callbacks with model type/key/value check, frames written, distinct callbacks registered, timer heap at rest) validated by TLC against TraceSession.tla"
CHECKS.update({
    "C16": dict(technique=_SESS_TECH, text="NoCrossTalk / ForeignIgnored / ConnectTimeoutOrder model-checked for <= 3 concurrent operations over addresses {1,2} x handles {1,2}; every operation kind x message kind x {own, foreign address, foreign handle}, concurrent neighbours, time-outs, cancellations, connection loss and repeated unsubscribe calls run on the real client and validated row by row.", design="§3.6, §6 C16", note="'Nothing subscribed' excludes what the API documents as staying subscribed after success. " + TB),
    "C17": dict(technique=_SESS_TECH, text="OnePerMessage / CameraConcat model-checked; all 21 state types, all interleavings of two cameras' chunk streams, unsubscribe at every point of a stream, voice-assistant handler outcomes x audio x unsubscribe at every point run on the real client; callbacks carry model type, key, image parts and a value check against the sent message.", design="§3.6, §6 C17", note="Expected model class per state message is a literal table in the harness; value conversion itself is C14's subject. " + TB),
})

CHECKS.update({
    "C18": dict(technique="TLA+ spec Reconnect.tla (manager state, retry timer, mDNS listener, the attempt in flight / cancelled-but-unwinding / waiting successor / waiting stop that the lock serialises) model-checked by TLC (OneAtATime, StoppedMeansQuiet, NoAttemptWhileUp, TimerSanctioned, BackoffByTries, CallbacksAlternate); the real ReconnectLogic on the real APIClient/APIConnection over the simulated network; the observable event stream and rest-point snapshots validated by TLC against TraceReconnect.tla", text="Design properties model-checked over all orders of user calls, outcomes, session ends, records and time in the bounds; on the real manager every attempt instant (virtual ms), callback, listener add/remove and stop return must be produced by a specification step and every rest-point snapshot (state, tries, retry deadline, listener) must equal the specification's, so a wrong back-off, a second attempt in flight or a listener left after stop is a rejected trace.", design="§3.7, §6 C18", note="User callbacks return without awaiting; start() is called on a stopped manager at rest. A cancelled attempt counts as a failed one (library behaviour); FIFO order of lock waiters is not tracked (either order accepted). " + TB),
})

CHECKS.update({
    "C20": dict(technique="TLA+ module Resolver.tla: the resolution decision procedure written from the statement (TLC enumerates every host list in the bounds and evaluates look-ups / ordered result / error plus the procedure's own properties) replayed case by case into the real async_resolve_host; the zeroconf ownership state machine model-checked (SuppliedNeverClosed, CreatedClosedWhenDone) and every operation sequence on the real ZeroconfManager validated by TLC against TraceResolver.tla", text="Exhaustive over the bounded case space: 11 100 host lists (forms x mDNS outcome x OS outcome) compared on look-ups performed, ordered AddrInfo list (family order, scope id, port) and error; all operation sequences of length <= 5 (thorough 7) over {supply, look-up, listen, stop} on the real manager.", design="§3.8, §6 C20", note="Fakes stand in for zeroconf's AsyncServiceInfo/AsyncZeroconf and loop.getaddrinfo; a non-numeric scope maps to 0; an OS-resolver error aborts the resolution with a connection error. " + TB),
})

CHECKS.update({
    "C15": dict(technique="TLA+ module Commands.tla: the declarative command table (argument -> wire field(s), presence flag, transform; legacy encodings keyed on the negotiated version); TLC enumerates command x subset of optional arguments x value class x version and evaluates Expected; every case replayed on a real client connected with that version, the full field map of the written frame compared", text="Exhaustive in the thorough tier (25 011 command cases incl. all 4 096 subsets of light_command x 3 classes x versions, 192 service-argument cases); quick samples light/climate subsets and runs every other command fully. Falsy values, ms conversion, colour split and the three legacy rules are part of the table.", design="§3.9, §6 C15", note="Known finding: lock_command(code) omits has_code (pinned by an existing test). protobuf decoding of the written frame is trusted. " + TB),
})

CHECKS.update({
    "C14": dict(technique="TLA+ module Models.tla over ProtoSchema.tla (enums, messages and field types generated at check time from the text of api.proto): TLC evaluates the table statements (enum values / names / no aliases, field-name mirror) on a snapshot of the model enums and classes and enumerates the conversion case analysis message x field x value class with the demanded result; every case materialised on the real from_pb / to_dict / from_dict", text="Exhaustive over the finite tables (29 enums, 57 model classes) and over the case space of 1 455 field x value-class cases (every known enum number, unknown numbers, mixed lists, float32 patterns incl. ties, powers of ten, sub-normals, signed zero, infinities, NaN) with a to_dict/from_dict round trip per case.", design="§3.9, §6 C14", note="Known finding: UpdateCommand.INSTALL names wire value 1 (UPDATE). The float oracle is exact decimal rounding of the float32 value; nested sub-messages are only required not to fail. " + TB),
})

for _pid in ("C16", "C17", "C18", "C19"):
    CHECKS[_pid]["technique"] += ("; TLC is also the generator: GenMode histories (one per distinct state of a bounded instance, shortest first) are "
                                  "translated to environment events, run on the real objects and validated as traces")
CHECKS["C07"]["technique"] += "; the application's stop callback is also counted at the client level (Client.tla nstop) in traces of the real APIClient"
CHECKS["C09"]["technique"] += "; liveness slice (EventuallySettled under weak fairness); outcomes of the Bluetooth operation families audited for raw exceptions"

NOT_YET = {}


def main():
    props = [json.loads(l) for l in (ROOT / "properties.jsonl").read_text().splitlines() if l.strip()]
    checks = []
    na = []
    for p in props:
        pid = p["id"]
        if pid in CHECKS:
            c = CHECKS[pid]
            checks.append(
                {
                    "property_id": pid,
                    "quick_cmd": f"./check {pid} --tier quick",
                    "thorough_cmd": f"./check {pid} --tier thorough",
                    "evidence_file": f"evidence/{pid}.json",
                    "replay_cmd_template": "./check replay {path}",
                    "engine": "tla-mbt",
                    "level_claimed": {"category": c.get("category", "model_checking"), "text": c["text"], "design_ref": f"DESIGN.md §3 (specifications), §6 ({pid})"},
                    "level_note": c["note"],
                    "technique": c["technique"],
                }
            )
        else:
            na.append({"property_id": pid, "reason": NOT_YET.get(pid, "check not built yet in this round (planned in DESIGN.md §6); not claimed until its specification and conformance harness exist")})
    m = {
        "version": 1,
        "setup_cmd": "sh -c 'chmod +x /verif/check && java -version 2>&1 | head -1 && /venv/bin/python -c \"import aioesphomeapi, noise, cryptography\"'",
        "hooks": {
            "guard": "AIOESPHOMEAPI_VERIF",
            "enable": "no source hooks: all linearization points are observed from the harness (recording transports, loop observer, injected APIConnection subclass); the variable is exported by ./check for future guarded hooks",
            "baseline_off_cmd": "cd /repo && /venv/bin/python -m pytest -q -p no:cacheprovider --timeout=900",
            "source_commits": [],
            "add_only": True,
        },
        "engines": [
            {
                "name": "tla-mbt",
                "path": "/verif/check",
                "serves_properties": [c["property_id"] for c in checks],
                "kind_free_text": "explicit TLA+ specifications (spec/*.tla) model-checked by TLC; conformance both ways: TLC-generated behaviours replayed into the real code inside a deterministic virtual-time asyncio loop, and recorded executions validated by TLC against Trace*.tla",
            }
        ],
        "checks": checks,
        "not_applicable": na,
        "notes": "Exit codes of ./check: 0 held (KNOWN-FINDING lines allowed), 1 VIOLATION, 2 machinery failure. Known findings: /verif/known_findings.txt.",
    }
    (ROOT / "MANIFEST.json").write_text(json.dumps(m, indent=1) + "\n")


if __name__ == "__main__":
    main()
