"""Regenerates /verif/MANIFEST.json from the table below (python3 vf/manifest.py)."""

import json
from pathlib import Path

ROOT = Path(__file__).resolve().parent.parent

TB = "TLC 1.8 and the TLA+ modules in /verif/spec; the harness in /verif/vf (SimLoop virtual-time asyncio loop, device simulators); CPython asyncio Task/Future; protobuf"

CHECKS = {
    "C01": dict(
        technique="TLA+ spec PlainHelper.tla model-checked by TLC (parser transcription refines 'frames complete in received prefix' for all segmentations); edge-cover behaviours replayed into APIPlaintextFrameHelper; recorded traces validated by TLC (TracePlain.tla)",
        text="Exhaustive TLC check of the parser transcription against the abstract reassembly meaning on bounded frame alphabets and all segmentations; every model transition replayed into the real helper; long random/adversarial streams validated as traces of the specification.",
        design="§3.2, §6 C01",
        note="Payload bytes are opaque in the specification and materialised by the harness. " + TB,
    ),
}

NOT_YET = {}


def main():
    props = [json.loads(l) for l in (ROOT / "properties.jsonl").read_text().splitlines() if l.strip()]
    checks = []
    na = []
    for p in props:
        pid = p["id"]
        if pid in CHECKS:
            c = CHECKS[pid]
            checks.append(
                {
                    "property_id": pid,
                    "quick_cmd": f"./check {pid} --tier quick",
                    "thorough_cmd": f"./check {pid} --tier thorough",
                    "evidence_file": f"evidence/{pid}.json",
                    "replay_cmd_template": "./check replay {path}",
                    "engine": "tla-mbt",
                    "level_claimed": {"category": c.get("category", "model_checking"), "text": c["text"], "design_ref": c["design"]},
                    "level_note": c["note"],
                    "technique": c["technique"],
                }
            )
        else:
            na.append({"property_id": pid, "reason": NOT_YET.get(pid, "check not built yet in this round (planned in DESIGN.md §6); not claimed until its specification and conformance harness exist")})
    m = {
        "version": 1,
        "setup_cmd": "sh -c 'chmod +x /verif/check && java -version 2>&1 | head -1 && /venv/bin/python -c \"import aioesphomeapi, noise, cryptography\"'",
        "hooks": {
            "guard": "AIOESPHOMEAPI_VERIF",
            "enable": "no source hooks: all linearization points are observed from the harness (recording transports, loop observer, injected APIConnection subclass); the variable is exported by ./check for future guarded hooks",
            "baseline_off_cmd": "cd /repo && /venv/bin/python -m pytest -q -p no:cacheprovider --timeout=900",
            "source_commits": [],
            "add_only": True,
        },
        "engines": [
            {
                "name": "tla-mbt",
                "path": "/verif/check",
                "serves_properties": [c["property_id"] for c in checks],
                "kind_free_text": "explicit TLA+ specifications (spec/*.tla) model-checked by TLC; conformance both ways: TLC-generated behaviours replayed into the real code inside a deterministic virtual-time asyncio loop, and recorded executions validated by TLC against Trace*.tla",
            }
        ],
        "checks": checks,
        "not_applicable": na,
        "notes": "Exit codes of ./check: 0 held (KNOWN-FINDING lines allowed), 1 VIOLATION, 2 machinery failure. Known findings: /verif/known_findings.txt.",
    }
    (ROOT / "MANIFEST.json").write_text(json.dumps(m, indent=1) + "\n")


if __name__ == "__main__":
    main()
