"""Histories on top of an established session, run on the real APIClient and recorded as
rows for TraceSession.tla: Bluetooth operations (C16), subscriptions / camera / voice
assistant (C17)."""

from __future__ import annotations

import asyncio
import random

from .clientsim import CONNECT_OK, HELLO_OK, ClientRun
from .world import Op, msg_id, pb

TBLE = 30.0
TDISC = 20.0


def addr(a: int) -> int:
    return 0x112233440000 + a


# state message -> model class the callback must carry (written from the API documentation,
# not taken from the library's tables)
STATE_MODEL = {
    "AlarmControlPanelStateResponse": "AlarmControlPanelEntityState", "BinarySensorStateResponse": "BinarySensorState",
    "ClimateStateResponse": "ClimateState", "CoverStateResponse": "CoverState", "DateStateResponse": "DateState",
    "DateTimeStateResponse": "DateTimeState", "EventResponse": "Event", "FanStateResponse": "FanState", "LightStateResponse": "LightState",
    "LockStateResponse": "LockEntityState", "MediaPlayerStateResponse": "MediaPlayerEntityState", "NumberStateResponse": "NumberState",
    "SelectStateResponse": "SelectState", "SensorStateResponse": "SensorState", "SirenStateResponse": "SirenState",
    "SwitchStateResponse": "SwitchState", "TextSensorStateResponse": "TextSensorState", "TextStateResponse": "TextState",
    "TimeStateResponse": "TimeState", "UpdateStateResponse": "UpdateState", "ValveStateResponse": "ValveState",
}
STATE_TYPES = sorted(STATE_MODEL)


def full(m: dict) -> dict:
    return {"k": m["k"], "a": m.get("a", 0), "h": m.get("h", 0), "f": bool(m.get("f", False)), "d": m.get("d", 0), "t": m.get("t", "")}


ADV_MFR, ADV_SVC = [1, 2, 250], [3, 4]


def hasvc_ok(call) -> bool:
    """The service-call model carries the maps the device sent (d is encoded in the service name)."""
    d = int(call.service[1:])

    def exp(on, tag):
        return {f"{tag}k": f"{tag}v{d}"} if on else {}

    return (dict(call.data) == exp(d & 1, "d") and dict(call.data_template) == exp(d & 2, "t") and dict(call.variables) == exp(d & 4, "v")
            and bool(call.is_event) == bool(d % 2))


def adv_ok(adv) -> bool:
    """The advertisement model carries the payloads the device sent, whichever encoding each list used."""
    return list(adv.manufacturer_data.values()) == [bytes(ADV_MFR)] and list(adv.service_data.values()) == [bytes(ADV_SVC)]


def build(m: dict):
    """Device message for a symbolic Session message -> (type id, payload, pb message)."""
    from aioesphomeapi import api_pb2

    k, a, h, f, d = m["k"], addr(m.get("a", 0)), m.get("h", 0), bool(m.get("f", False)), m.get("d", 0)
    if k == "read":
        msg = pb("BluetoothGATTReadResponse", address=a, handle=h, data=bytes([d]))
    elif k == "write":
        msg = pb("BluetoothGATTWriteResponse", address=a, handle=h)
    elif k == "notify":
        msg = pb("BluetoothGATTNotifyResponse", address=a, handle=h)
    elif k == "gatterr":
        msg = pb("BluetoothGATTErrorResponse", address=a, handle=h, error=133)
    elif k == "conn":
        msg = pb("BluetoothDeviceConnectionResponse", address=a, connected=f, mtu=23, error=0 if f else 19)
    elif k == "pair":
        msg = pb("BluetoothDevicePairingResponse", address=a, paired=True)
    elif k == "unpair":
        msg = pb("BluetoothDeviceUnpairingResponse", address=a, success=True)
    elif k == "clear":
        msg = pb("BluetoothDeviceClearCacheResponse", address=a, success=True)
    elif k == "svc":
        msg = pb("BluetoothGATTGetServicesResponse", address=a, services=[api_pb2.BluetoothGATTService(uuid=[0, d], handle=d)])
    elif k == "svcdone":
        msg = pb("BluetoothGATTGetServicesDoneResponse", address=a)
    elif k == "ndata":
        msg = pb("BluetoothGATTNotifyDataResponse", address=a, handle=h, data=bytes([d]))
    elif k == "state":
        name = [n for n, mod in STATE_MODEL.items() if mod == m["t"]][0]
        msg = pb(name, key=d)
        for fld, val in (("state", None), ("position", 0.5), ("event_type", "press")):
            fd = msg.DESCRIPTOR.fields_by_name.get(fld)
            if fd is None:
                continue
            if val is None:
                val = {fd.TYPE_BOOL: True, fd.TYPE_FLOAT: float(d) + 0.5, fd.TYPE_STRING: f"v{d}", fd.TYPE_ENUM: 1}.get(fd.type)
            if val is not None:
                setattr(msg, fld, val)
    elif k == "cam":
        msg = pb("CameraImageResponse", key=d, data=bytes([h]) if h else b"", done=f)
    elif k == "log":
        msg = pb("SubscribeLogsResponse", level=3, message=str(d).encode())
    elif k == "hasvc":
        # every subset of the three maps filled (chosen by d): each must reach the handler with its entries
        def m3(on, tag):
            return [api_pb2.HomeassistantServiceMap(key=f"{tag}k", value=f"{tag}v{d}")] if on else []

        msg = pb("HomeassistantServiceResponse", service=f"s{d}", is_event=bool(d % 2), data=m3(d & 1, "d"), data_template=m3(d & 2, "t"), variables=m3(d & 4, "v"))
    elif k == "hastate":
        msg = pb("SubscribeHomeAssistantStateResponse", entity_id=f"e{d}", once=f)
    elif k == "adv":
        # payloads in the current (`data`) or the deprecated (`legacy_data`) encoding, chosen per list
        def entries(uuid, payload, legacy):
            e = api_pb2.BluetoothServiceData(uuid=uuid)
            if legacy:
                e.legacy_data.extend(payload)
            else:
                e.data = bytes(payload)
            return [e]

        msg = pb("BluetoothLEAdvertisementResponse", address=d, name=b"n", rssi=-50,
                 manufacturer_data=entries("0x004C", ADV_MFR, d % 2 == 1), service_data=entries("0xFE95", ADV_SVC, (d // 2) % 2 == 1))
    elif k == "rawadv":
        msg = pb("BluetoothLERawAdvertisementsResponse", advertisements=[api_pb2.BluetoothLERawAdvertisement(address=d, rssi=-1, data=b"x")])
    elif k == "free":
        msg = pb("BluetoothConnectionsFreeResponse", free=d, limit=3)
    elif k == "vareq":
        msg = pb("VoiceAssistantRequest", start=f, conversation_id=f"c{d}")
    elif k == "vaaudio":
        msg = pb("VoiceAssistantAudio", data=bytes(d), end=f)
    elif k == "vafin":
        msg = pb("VoiceAssistantAnnounceFinished", success=bool(d))
    else:
        raise ValueError(k)
    return msg_id(type(msg).__name__), msg.SerializeToString(), msg


class SessionRun(ClientRun):
    def __init__(self, cfg: dict, seed: int = 0):
        cfg = dict(cfg)
        cfg["K"] = 10**9  # keep-alive out of the way (its timer is filtered from the rows)
        super().__init__(cfg, seed)
        self.cb: list = []
        self.ops: dict[str, asyncio.Task] = {}
        self.op_results: dict[str, object] = {}
        self.sub_unsubs: dict[int, object] = {}
        self.sub_fams: dict[int, str] = {}
        self.leftover: set[str] = set()
        self.sent: dict[int, object] = {}  # key -> state message sent (value oracle)
        # message boundaries: callbacks of ONE message reach its subscribers in no particular order
        self.msg_seq = 0
        cls = self._orig_conn_cls
        self._orig_pp = cls.process_packet
        run = self

        def pp(conn, t, data):
            run.msg_seq += 1
            return run._orig_pp(conn, t, data)

        cls.process_packet = pp

    def restore(self) -> None:
        self._orig_conn_cls.process_packet = self._orig_pp

    # rows of this layer
    def _log(self, cause: str, args: dict, idle: bool = False) -> None:
        w = self.w
        frames = w.step_frames
        w.step_frames = []
        names, _, _ = w.drain_step()
        wl = []
        for (t, payload), n in zip(frames, names):
            if n == "VoiceAssistantResponse":
                from aioesphomeapi import api_pb2

                r = api_pb2.VoiceAssistantResponse()
                try:
                    r.ParseFromString(payload)
                    n += ":error" if r.error else f":port:{r.port - 12000}"
                except Exception:  # noqa: BLE001
                    n += ":undecodable"
            wl.append(n)
        done = []
        for op in w.poll_ops():
            if op.base not in self.ops:
                continue
            res = []
            if op.outcome == "ok":
                r = op.result
                if isinstance(r, (bytes, bytearray)):
                    res = list(r)
                elif type(r).__name__ == "ESPHomeBluetoothGATTServices":
                    res = [s.handle for s in r.services]
                elif type(r).__name__ == "VoiceAssistantAnnounceFinished":
                    res = [1 if r.success else 0]
                else:
                    self.op_results[op.base] = r
                    if callable(r) or isinstance(r, tuple):
                        self.leftover.add(op.base)
            done.append([op.base, op.outcome, res])
        raw, self.cb = self.cb, []
        groups: dict = {}
        for e in raw:
            groups.setdefault(e[4] if len(e) > 4 else -1, []).append(e[:4])
        cb = [e for k in sorted(groups) for e in sorted(groups[k], key=lambda e: e[0])]
        conn = self.conns[-1] if self.conns else None
        nh = len({id(c) for v in conn._message_handlers.values() for c in v}) if conn is not None else 0
        up = bool(conn is not None and conn.is_connected)
        tm = [t for t in w.timers_ms() if t < 10**8]
        key = (up, nh, tuple(tm))
        changed = key != getattr(self, "_last_key", None) or wl or cb or done
        if cause == "int" and not changed:
            return
        if cause == "idle" and not changed and self.rows and self.rows[-1]["c"] == "idle" and self.rows[-1]["t"] == w.now_ms():
            return
        self._last_key = key
        subs, self.step_subs = self.step_subs, []
        self.rows.append({"c": cause, "a": args, "t": w.now_ms(), "up": up, "w": wl, "cb": cb, "dn": done, "nh": nh, "q": idle, "tm": tm if idle else [], "sub": subs})

    def _after_callback(self, handle) -> None:
        if self.cur is not None:
            cause, args = self.cur
            self.cur = None
            self._log(cause, args)
        else:
            force = isinstance(handle, asyncio.TimerHandle)
            if force:
                self._last_key = None
            self._log("int", {})

    # ------------------------------------------------------------ connect
    def establish(self) -> None:
        steps = [("connect",), ("resolve", "ok"), ("tcp", "ok")] + ([("handshake",)] if self.cfg.get("noise") else [])
        for ev in steps + [("chunk", [HELLO_OK, CONNECT_OK] if self.cfg.get("login") else [HELLO_OK])]:
            getattr(self, "ev_" + ev[0])(*ev[1:])
            self.loop.run_until_idle()
        if not (self.conns and self.conns[-1].is_connected):
            raise RuntimeError("SessionRun: could not establish the session")
        self.rows.clear()
        self.w.drain_step()
        self.w.step_frames = []
        self.w.poll_ops()
        self.cb.clear()
        self._last_key = None
        self._log("idle", {}, idle=True)
        self.rows.clear()

    # ------------------------------------------------------------- events
    def spawn_op(self, oid: str, coro):
        task = asyncio.Task(coro, loop=self.loop, eager_start=True)
        op = Op(oid, task, self.loop.time())
        op.base = oid
        self.w.ops[oid + f"#{len(self.w.ops)}"] = op
        self.ops[oid] = task
        return task

    def ev_op(self, oid: str, k: str, a: int, h: int):
        c = self.client
        A = addr(a)

        def fn():
            t = self.ops.get(oid)
            if t is not None and not t.done():
                return False
            if oid in self.leftover:
                # the previous operation in this slot still has its documented subscription (connect's state
                # callback / notify's data callback): the slot - and with it the subscriber id - is not reused
                return False
            run = self
            if k == "read":
                coro = c.bluetooth_gatt_read(A, h, timeout=TBLE)
            elif k == "readdesc":
                coro = c.bluetooth_gatt_read_descriptor(A, h, timeout=TBLE)
            elif k == "write":
                coro = c.bluetooth_gatt_write(A, h, b"\x01", True, timeout=TBLE)
            elif k == "writenr":
                coro = c.bluetooth_gatt_write(A, h, b"\x01", False, timeout=TBLE)
            elif k == "writedesc":
                coro = c.bluetooth_gatt_write_descriptor(A, h, b"\x01", timeout=TBLE)
            elif k == "notify":
                coro = c.bluetooth_gatt_start_notify(A, h, lambda hh, data, oid=oid: run.cb.append([100 + int(oid[1:]), "ndata", data[0] if data else 0, [], run.msg_seq]), timeout=TBLE)
            elif k == "services":
                coro = c.bluetooth_gatt_get_services(A)
            elif k == "connect":
                coro = c.bluetooth_device_connect(A, lambda connected, mtu, err, oid=oid, a=a: run.cb.append([100 + int(oid[1:]), "connected" if connected else "disconnected", a, [], run.msg_seq]),
                                                  timeout=TBLE, disconnect_timeout=TDISC)
            elif k == "connect_auto":
                # the application's state callback drops its own subscription when it is told "disconnected"
                # (it can only do so once the connect call has handed it the unsubscribe function)
                def on_state(connected, mtu, err, oid=oid, a=a):
                    run.cb.append([100 + int(oid[1:]), "connected" if connected else "disconnected", a, [], run.msg_seq])
                    r = run.op_results.get(oid)
                    if not connected and callable(r):
                        r()
                        run.leftover.discard(oid)

                coro = c.bluetooth_device_connect(A, on_state, timeout=TBLE, disconnect_timeout=TDISC)
            elif k == "announce":
                coro = c.send_voice_assistant_announcement_await_response("media", TBLE, "text")
            elif k == "disconnect":
                coro = c.bluetooth_device_disconnect(A, timeout=TBLE)
            elif k == "pair":
                coro = c.bluetooth_device_pair(A, timeout=TBLE)
            elif k == "unpair":
                coro = c.bluetooth_device_unpair(A, timeout=TBLE)
            elif k == "clear":
                coro = c.bluetooth_device_clear_cache(A, timeout=TBLE)
            else:
                raise ValueError(k)
            self.op_results.pop(oid, None)
            self.spawn_op(oid, coro)

        self.inject("UserOp", {"i": oid, "k": k, "a": a, "h": h}, fn)

    def ev_cancel(self, oid: str):
        def fn():
            t = self.ops.get(oid)
            if t is None or t.done():
                return False
            t.cancel()

        self.inject("CancelOp", {"i": oid}, fn)

    def ev_conn_unsub(self, oid: str):
        def fn():
            # the unsubscribe function stays callable (calling it again must be harmless)
            r = self.op_results.get(oid)
            if not callable(r):
                return False
            r()
            self.leftover.discard(oid)

        self.inject("ConnUnsub", {"i": oid}, fn)

    def ev_notify_end(self, oid: str, how: str):
        """how: 'stop' (tell the device, coroutine) | 'remove' (just drop the callback)"""

        def fn():
            r = self.op_results.get(oid)
            if not isinstance(r, tuple):
                return False
            stop, remove = r
            self.leftover.discard(oid)
            if how == "remove":
                remove()  # may be called again later: harmless
            else:
                del self.op_results[oid]
                asyncio.Task(stop(), loop=self.loop, eager_start=True)

        self.inject("NotifyStop" if how == "stop" else "NotifyRemove", {"i": oid}, fn)

    def ev_sub(self, sid: int, fam: str, once: bool = False):
        """once: the callback unsubscribes itself on its first invocation (only families that hand out an unsubscribe function)"""
        c = self.client
        run = self
        once = bool(once) and fam in ("adv", "rawadv", "free")

        def maybe_unsub(sid=sid):
            if once and sid in run.sub_unsubs and run.sub_unsubs[sid] is not None:
                run.sub_unsubs.pop(sid)()

        def fn():
            if sid in self.sub_unsubs:
                return False
            u = None
            if fam == "states":
                def on_state(st, sid=sid):
                    name = type(st).__name__
                    if name == "CameraState":
                        run.cb.append([sid, "Camera", st.key, list(st.data), run.msg_seq])
                        return
                    sent = run.sent.get(st.key)
                    ok = sent is not None and st == type(st).from_pb(sent)
                    run.cb.append([sid, name if ok else "VALUE_MISMATCH:" + name, st.key, [], run.msg_seq])

                c.subscribe_states(on_state)
            elif fam == "logs":
                c.subscribe_logs(lambda m, sid=sid: run.cb.append([sid, "log", int(m.message.decode()), [], run.msg_seq]))
            elif fam == "svc":
                c.subscribe_service_calls(lambda call, sid=sid: run.cb.append([sid, "hasvc" if hasvc_ok(call) else "VALUE_MISMATCH:hasvc", int(call.service[1:]), [], run.msg_seq]))
            elif fam == "hastate":
                c.subscribe_home_assistant_states(
                    lambda e, attr, sid=sid: run.cb.append([sid, "hastate", int(e[1:]), [], run.msg_seq]),
                    lambda e, attr, sid=sid: run.cb.append([sid, "hastate_once", int(e[1:]), [], run.msg_seq]))
            elif fam == "hastate1":
                # no handler for one-shot requests: they go to the subscription handler like every other message
                c.subscribe_home_assistant_states(lambda e, attr, sid=sid: run.cb.append([sid, "hastate", int(e[1:]), [], run.msg_seq]))
            elif fam == "adv":
                u = c.subscribe_bluetooth_le_advertisements(
                    lambda adv, sid=sid: (run.cb.append([sid, "adv" if adv_ok(adv) else "VALUE_MISMATCH:adv", adv.address, [], run.msg_seq]), maybe_unsub()))
            elif fam == "rawadv":
                u = c.subscribe_bluetooth_le_raw_advertisements(lambda m, sid=sid: (run.cb.append([sid, "rawadv", m.advertisements[0].address, [], run.msg_seq]), maybe_unsub()))
            elif fam == "free":
                u = c.subscribe_bluetooth_connections_free(
                    lambda free, limit, sid=sid: (run.cb.append([sid, "free" if limit == 3 else "VALUE_MISMATCH:free", free, [], run.msg_seq]), maybe_unsub()))
            else:
                raise ValueError(fam)
            self.sub_unsubs[sid] = u
            self.sub_fams[sid] = fam

        self.inject("UserSub", {"id": sid, "fam": fam, "once": once}, fn)

    def ev_unsub(self, sid: int, fam: str = ""):
        args = {"id": sid, "fam": fam}

        def fn():
            u = self.sub_unsubs.get(sid)
            if u is None:  # never subscribed, or a family whose API hands out no unsubscribe function
                return False
            del self.sub_unsubs[sid]
            args["fam"] = self.sub_fams[sid]
            u()

        self.inject("UserUnsub", args, fn)

    def ev_va_sub(self, mode: str, audio: bool):
        run = self

        def fn():
            if getattr(self, "va_unsub", None) is not None:
                return False

            async def handle_start(conv_id, flags, settings, wake):
                run.cb.append([0, "va_start", int(conv_id[1:]), [], run.msg_seq])
                run.va_cnt = getattr(run, "va_cnt", 0) + 1
                n = run.va_cnt  # serial number of this start: the port it returns identifies it
                if mode == "port":
                    return 12000 + n
                if mode == "noport":
                    return None
                gate = run.loop.create_future()
                if mode == "gated":
                    run.va_gates = getattr(run, "va_gates", {})
                    run.va_gates[n] = gate
                return 12000 + n if await gate else None

            async def handle_stop(abort):
                run.cb.append([0, "va_stop", 1 if abort else 0, [], run.msg_seq])

            async def handle_audio(data):
                run.cb.append([0, "va_audio", len(data), [], run.msg_seq])

            async def handle_fin(m):
                run.cb.append([0, "va_fin", 1 if m.success else 0, [], run.msg_seq])

            self.va_unsub = self.client.subscribe_voice_assistant(
                handle_start=handle_start, handle_stop=handle_stop, handle_audio=handle_audio if audio else None, handle_announcement_finished=handle_fin)

        self.inject("VaSubscribe", {"mode": mode, "audio": bool(audio)}, fn)

    def ev_va_release(self, n: int, res: str):
        """The application's handler of start number n (mode 'gated') returns now: a port or nothing."""

        def fn():
            gate = getattr(self, "va_gates", {}).get(n)
            if gate is None or gate.done():
                return False
            gate.set_result(res == "port")

        self.inject("VaRelease", {"n": n, "res": res}, fn)

    def ev_va_unsub(self):
        def fn():
            u = getattr(self, "va_unsub", None)
            if u is None:
                return False
            self.va_unsub = None
            u()

        self.inject("VaUnsub", {}, fn)

    def ev_msgs(self, ms: list):
        w = self.w

        def fn():
            tr = w.tr
            if tr is None or not tr.can_receive():
                return False
            frames = []
            for m in ms:
                t, payload, msg = build(m)
                if m["k"] == "state":
                    self.sent[m["d"]] = msg
                frames.append((t, payload))
            return w.send_msgs(frames)

        self.inject("EnvChunk", {"ms": [full(m) for m in ms]}, fn)

    def ev_close(self):
        self.inject("EnvClose", {}, self.w.eof)

    def tick(self) -> None:
        self.settle()
        nd = self.loop.next_deadline()
        if nd is not None and nd * 1000 < 10**8 and self.loop.advance_to_next_timer():
            self.settle()

    def advance(self, ms: int) -> None:
        self.settle()
        target = self.loop.time() + ms / 1000.0
        while True:
            nd = self.loop.next_deadline()
            if nd is None or nd > target:
                break
            self.loop.set_time(max(self.loop.time(), nd))
            self.settle()
        self.loop.set_time(target)
        self.settle()


def run_schedule(cfg: dict, schedule: list, seed: int = 0) -> dict:
    from .simloop import debug_logging

    with debug_logging(bool(cfg.get("debug"))):
        return _run_schedule(cfg, schedule, seed)


def _run_schedule(cfg: dict, schedule: list, seed: int = 0) -> dict:
    r = SessionRun(cfg, seed)
    try:
        r.establish()
        for it in schedule:
            kind = it[0]
            if kind == "ev":
                getattr(r, "ev_" + it[1])(*it[2:])
            elif kind == "iter":
                for _ in range(it[1]):
                    r.loop.iteration()
            elif kind == "idle":
                r.settle()
            elif kind == "tick":
                r.tick()
            elif kind == "adv":
                r.advance(it[1])
        r.restore()
        t = r.finish()
        t["rows"] = r.rows
        return t
    except BaseException:
        r.restore()
        r.loop.after_callback = None
        r.client_mod.APIConnection = r._orig_conn_cls
        r._orig_conn_cls._add_message_callback_without_remove = r._orig_add
        r.w.close()
        raise


# ------------------------------------------------------------------ families
GATT_OPS = ["read", "readdesc", "write", "writedesc", "notify"]
ALL_OPS = GATT_OPS + ["services", "connect", "connect_auto", "disconnect", "pair", "unpair", "clear", "writenr"]


def gaps(rng):
    r = rng.random()
    return [] if r < 0.25 else [("iter", 1)] if r < 0.5 else [("idle",)]


def ble_messages(rng, n):
    out = []
    for _ in range(n):
        k = rng.choice(["read", "write", "notify", "gatterr", "conn", "conn", "pair", "unpair", "clear", "svc", "svc", "svcdone", "ndata"])
        out.append({"k": k, "a": rng.choice((1, 2)), "h": rng.choice((1, 2)), "f": rng.random() < 0.5, "d": rng.randrange(1, 200)})
    return out


def c16_random(rng: random.Random, n_events: int) -> list:
    sch = []
    live = []
    for _ in range(n_events):
        r = rng.random()
        if r < 0.3:
            oid = rng.choice(("o1", "o2", "o3"))
            sch.append(("ev", "op", oid, rng.choice(ALL_OPS), rng.choice((1, 2)), rng.choice((1, 2))))
            live.append(oid)
        elif r < 0.75:
            sch.append(("ev", "msgs", ble_messages(rng, rng.choice((1, 1, 2, 3)))))
        elif r < 0.8:
            sch.append(("ev", "cancel", rng.choice(("o1", "o2", "o3"))))
        elif r < 0.86:
            sch.append(("ev", "conn_unsub", rng.choice(("o1", "o2", "o3"))))
        elif r < 0.92:
            sch.append(("ev", "notify_end", rng.choice(("o1", "o2", "o3")), rng.choice(("stop", "remove"))))
        elif r < 0.97:
            sch.append(("tick",))
        else:
            sch.append(("ev", "close"))
        sch += gaps(rng)
    sch += [("idle",), ("tick",), ("tick",), ("tick",), ("ev", "msgs", ble_messages(rng, 2)), ("idle",)]
    return sch


def c16_systematic() -> list:
    """Every operation kind x every message kind x {own, foreign address, foreign handle}, alone and next to a
    concurrent operation on the other address / handle; time-out and cancellation of each kind."""
    out = []
    cross = []
    kinds = ["read", "write", "notify", "gatterr", "conn", "pair", "unpair", "clear", "svc", "svcdone", "ndata"]
    for k in ALL_OPS:
        for mk in kinds:
            for (ma, mh) in ((1, 1), (2, 1), (1, 2)):
                for f in (False, True):
                    if mk != "conn" and f:
                        continue
                    for other in (None, ("read", 2, 1), ("read", 1, 2), ("connect", 2, 0), ("services", 2, 0)):
                        sch = [("ev", "op", "o1", k, 1, 1), ("idle",)]
                        if other:
                            sch += [("ev", "op", "o2", other[0], other[1], other[2]), ("idle",)]
                        sch += [("ev", "msgs", [{"k": mk, "a": ma, "h": mh, "f": f, "d": 7}]), ("idle",),
                                ("ev", "msgs", [{"k": "svc", "a": 1, "h": 0, "d": 9}, {"k": "svcdone", "a": 1}, {"k": "read", "a": 1, "h": 1, "d": 5}, {"k": "write", "a": 1, "h": 1},
                                                {"k": "notify", "a": 1, "h": 1}, {"k": "conn", "a": 1, "f": False}, {"k": "ndata", "a": 1, "h": 1, "d": 3}]), ("idle",),
                                ("tick",), ("tick",), ("tick",)]
                        cross.append(sch)
        # time-out, cancellation, connection loss, what stays subscribed afterwards
        out.append([("ev", "op", "o1", k, 1, 1), ("idle",), ("tick",), ("ev", "msgs", [{"k": "conn", "a": 1, "f": False}]), ("idle",), ("tick",), ("tick",),
                    ("ev", "msgs", [{"k": "conn", "a": 1, "f": True}, {"k": "ndata", "a": 1, "h": 1, "d": 3}]), ("idle",)])
        out.append([("ev", "op", "o1", k, 1, 1), ("idle",), ("tick",), ("tick",), ("tick",), ("ev", "msgs", [{"k": "conn", "a": 1, "f": True}, {"k": "ndata", "a": 1, "h": 1, "d": 3}]), ("idle",)])
        out.append([("ev", "op", "o1", k, 1, 1), ("idle",), ("ev", "cancel", "o1"), ("idle",), ("ev", "msgs", [{"k": "ndata", "a": 1, "h": 1, "d": 3}, {"k": "conn", "a": 1, "f": True}]), ("idle",), ("tick",)])
        out.append([("ev", "op", "o1", k, 1, 1), ("iter", 1), ("ev", "close"), ("idle",), ("tick",)])
        out.append([("ev", "op", "o1", k, 1, 1), ("idle",), ("ev", "msgs", [{"k": "conn", "a": 1, "f": True}, {"k": "notify", "a": 1, "h": 1}]), ("idle",),
                    ("ev", "msgs", [{"k": "conn", "a": 1, "f": False}, {"k": "ndata", "a": 1, "h": 1, "d": 4}]), ("idle",), ("ev", "conn_unsub", "o1"), ("ev", "notify_end", "o1", "stop"), ("idle",),
                    ("ev", "msgs", [{"k": "conn", "a": 1, "f": True}, {"k": "ndata", "a": 1, "h": 1, "d": 5}]), ("idle",), ("tick",)])
        # the unsubscribe / remove functions of a finished connect / notify are called twice, the second time while
        # another operation depends on the same message types
        if k not in ("connect", "writenr"):
            for first, endev in (("connect", ("ev", "conn_unsub", "o1")), ("notify", ("ev", "notify_end", "o1", "remove"))):
                out.append([("ev", "op", "o1", first, 1, 1), ("idle",), ("ev", "msgs", [{"k": "conn", "a": 1, "f": True}, {"k": "notify", "a": 1, "h": 1}]), ("idle",),
                            endev, ("idle",), ("ev", "op", "o2", k, 1, 1), ("idle",), endev, ("idle",),
                            ("ev", "msgs", [{"k": "ndata", "a": 1, "h": 1, "d": 8}, {"k": "conn", "a": 1, "f": False}]), ("idle",), ("tick",)])
    # the caller cancels an operation in the very iteration in which its completing message was dispatched (the
    # future is resolved, the task has not resumed yet): it ends cancelled and leaves nothing subscribed
    completing = {"read": {"k": "read", "a": 1, "h": 1, "d": 5}, "readdesc": {"k": "read", "a": 1, "h": 1, "d": 5}, "write": {"k": "write", "a": 1, "h": 1},
                  "writedesc": {"k": "write", "a": 1, "h": 1}, "notify": {"k": "notify", "a": 1, "h": 1}, "services": {"k": "svcdone", "a": 1},
                  "connect": {"k": "conn", "a": 1, "f": True}, "connect_auto": {"k": "conn", "a": 1, "f": True}, "disconnect": {"k": "conn", "a": 1, "f": False},
                  "pair": {"k": "pair", "a": 1}, "unpair": {"k": "unpair", "a": 1}, "clear": {"k": "clear", "a": 1}}
    for k, m in completing.items():
        for g in ([], [("iter", 1)]):
            for bad in (False, True):
                ms = [{"k": "gatterr", "a": 1, "h": 1}] if bad and k in GATT_OPS else [m]
                out.append([("ev", "op", "o1", k, 1, 1), ("idle",), ("ev", "msgs", ms), ("ev", "cancel", "o1")] + g +
                           [("idle",), ("ev", "msgs", [{"k": "conn", "a": 1, "f": True}, {"k": "ndata", "a": 1, "h": 1, "d": 3}, {"k": "conn", "a": 1, "f": False}]), ("idle",), ("tick",), ("tick",)])
    # a connected peripheral drops off while calls are pending on it and on another one; its state callback
    # unsubscribes itself from inside the callback
    for k in GATT_OPS + ["services", "pair", "disconnect"]:
        for g in ([], [("iter", 1)], [("idle",)]):
            out.append([("ev", "op", "o1", "connect_auto", 1, 0), ("idle",), ("ev", "msgs", [{"k": "conn", "a": 1, "f": True}]), ("idle",),
                        ("ev", "op", "o2", k, 1, 1), ("idle",), ("ev", "op", "o3", "read", 2, 1)] + g +
                       [("ev", "msgs", [{"k": "conn", "a": 1, "f": False}])] + g +
                       [("ev", "msgs", [{"k": "read", "a": 2, "h": 1, "d": 6}, {"k": "conn", "a": 1, "f": True}]), ("idle",), ("tick",), ("tick",)])
    return cross, out


SUB_FAMS = ["states", "logs", "svc", "hastate", "hastate1", "adv", "rawadv", "free"]


_KEY = [1000]


def sub_messages(rng, n, keys=(1, 2)):
    out = []
    for _ in range(n):
        r = rng.random()
        if r < 0.3:
            _KEY[0] += 1  # entity keys are unique: the value oracle is keyed by them
            out.append({"k": "state", "t": STATE_MODEL[rng.choice(STATE_TYPES)], "d": _KEY[0]})
        elif r < 0.6:
            out.append({"k": "cam", "d": rng.choice(keys), "h": rng.randrange(0, 250), "f": rng.random() < 0.3})
        else:
            k = rng.choice(["log", "hasvc", "hastate", "adv", "rawadv", "free", "vareq", "vaaudio", "vafin"])
            out.append({"k": k, "d": rng.randrange(0, 2) if k == "vafin" else rng.randrange(1, 200), "f": rng.random() < 0.5})
    return out


def c17_random(rng: random.Random, n_events: int) -> list:
    sch = []
    for _ in range(n_events):
        r = rng.random()
        if r < 0.2:
            sch.append(("ev", "sub", rng.choice((1, 2, 3)), rng.choice(SUB_FAMS + ["states"]), rng.random() < 0.3))
        elif r < 0.27:
            sid = rng.choice((1, 2, 3))
            sch.append(("ev", "unsub", sid, "x"))
        elif r < 0.35:
            sch.append(("ev", "va_sub", rng.choice(("port", "noport", "block", "gated", "gated")), rng.random() < 0.6))
        elif r < 0.42:
            sch.append(("ev", "va_unsub"))
        elif r < 0.5:
            sch.append(("ev", "va_release", rng.randrange(1, 6), rng.choice(("port", "port", "noport"))))
        elif r < 0.97:
            sch.append(("ev", "msgs", sub_messages(rng, rng.choice((1, 2, 3, 5)))))
        else:
            sch.append(("ev", "close"))
        sch += gaps(rng)
    sch += [("idle",), ("ev", "msgs", sub_messages(rng, 3)), ("idle",)]
    return sch


def c17_systematic(rng: random.Random, quick: bool) -> list:
    out = []
    # every state type, one and two subscribers, in every position of a chunk
    for i, t in enumerate(STATE_TYPES):
        sch = [("ev", "sub", 1, "states"), ("idle",), ("ev", "msgs", [{"k": "state", "t": STATE_MODEL[t], "d": 10 + i}]), ("idle",),
               ("ev", "sub", 2, "states"), ("idle",),
               ("ev", "msgs", [{"k": "state", "t": STATE_MODEL[t], "d": 40 + i}, {"k": "state", "t": STATE_MODEL[STATE_TYPES[(i + 1) % len(STATE_TYPES)]], "d": 80 + i}]), ("idle",)]
        out.append(sch)
    # all interleavings of two cameras' three-chunk streams (with the done flag on the last chunk)
    import itertools

    for order in sorted(set(itertools.permutations([1, 1, 1, 2, 2, 2]))):
        cnt = {1: 0, 2: 0}
        msgs = []
        for key in order:
            cnt[key] += 1
            msgs.append({"k": "cam", "d": key, "h": 10 * key + cnt[key], "f": cnt[key] == 3})
        # a second image of camera 1 afterwards; chunking of the stream varies
        msgs += [{"k": "cam", "d": 1, "h": 99, "f": False}, {"k": "cam", "d": 1, "h": 0, "f": True}]
        sch = [("ev", "sub", 1, "states"), ("idle",)]
        if rng.random() < 0.5:
            sch += [("ev", "msgs", msgs), ("idle",)]
        else:
            cut = rng.randrange(1, len(msgs))
            sch += [("ev", "msgs", msgs[:cut]), rng.choice([("idle",), ("iter", 1)]), ("ev", "msgs", msgs[cut:]), ("idle",)]
        out.append(sch)
    # the other subscription families, unsubscribe at every point of a 4-message stream
    for fam, mk in (("logs", "log"), ("svc", "hasvc"), ("hastate", "hastate"), ("hastate1", "hastate"), ("adv", "adv"), ("rawadv", "rawadv"), ("free", "free")):
        for cut in range(0, 5):
            msgs = [{"k": mk, "d": 20 + j, "f": j % 2 == 0} for j in range(4)]
            sch = [("ev", "sub", 1, fam), ("idle",), ("ev", "msgs", msgs[:cut]), ("iter", 1), ("ev", "unsub", 1, fam), ("ev", "msgs", msgs[cut:]), ("idle",)]
            out.append(sch)
    # one callback per MESSAGE: a message that repeats the previous one (same values) is delivered again, within a
    # chunk and across chunks
    for fam, mk in (("logs", "log"), ("svc", "hasvc"), ("hastate", "hastate"), ("adv", "adv"), ("rawadv", "rawadv"), ("free", "free"), ("states", "state")):
        m1 = {"k": mk, "d": 7, "f": False}
        m2 = {"k": mk, "d": 6, "f": False}
        if mk == "state":
            _KEY[0] += 2
            m1 = {"k": "state", "t": STATE_MODEL[STATE_TYPES[0]], "d": _KEY[0]}
            m2 = {"k": "state", "t": STATE_MODEL[STATE_TYPES[0]], "d": _KEY[0] - 1}
        out.append([("ev", "sub", 1, fam), ("idle",), ("ev", "msgs", [m1, m1, m2, m1]), ("idle",), ("ev", "msgs", [m1]), ("idle",), ("ev", "msgs", [m1]), ("iter", 1),
                    ("ev", "msgs", [m2, m2]), ("idle",)])
    # a subscriber that unsubscribes itself from inside its callback, next to one that stays
    for fam, mk in (("adv", "adv"), ("rawadv", "rawadv"), ("free", "free")):
        for first_once in (True, False):
            msgs = [{"k": mk, "d": 30 + j} for j in range(3)]
            out.append([("ev", "sub", 1, fam, first_once), ("ev", "sub", 2, fam, not first_once), ("idle",), ("ev", "msgs", msgs), ("idle",), ("ev", "msgs", msgs[:1]), ("idle",)])
    # voice assistant: overlapping starts whose handlers finish in every order, each with its own result;
    # with / without an unsubscribe in between
    import itertools

    for nst in (2, 3):
        for order in itertools.permutations(range(1, nst + 1)):
            for results in itertools.product(("port", "noport"), repeat=nst):
                if nst == 3 and results.count("noport") > 1:
                    continue
                for g in ([], [("iter", 1)], [("idle",)]):
                    for unsub_at in (None, 0, 1):
                        sch = [("ev", "va_sub", "gated", False), ("idle",)]
                        for j in range(nst):
                            sch += [("ev", "msgs", [{"k": "vareq", "f": True, "d": 40 + j}])] + g
                        for pos, n in enumerate(order):
                            if unsub_at == pos:
                                sch += [("ev", "va_unsub")] + g
                            sch += [("ev", "va_release", n, results[n - 1])] + g
                        sch += [("idle",), ("ev", "msgs", [{"k": "vareq", "f": True, "d": 50}]), ("idle",), ("ev", "va_release", nst + 1, "port"), ("idle",)]
                        out.append(sch)
    # an announcement waiting for its "finished" next to a voice-assistant subscription that listens for the same
    # message: each gets it, in either order of arrival of the two, and the subscription outlives the call
    for first in ("call", "sub"):
        for g in ([], [("iter", 1)], [("idle",)]):
            a = [("ev", "op", "o1", "announce", 0, 0)]
            b = [("ev", "va_sub", "port", False)]
            sch = (a + g + b if first == "call" else b + g + a) + g
            sch += [("ev", "msgs", [{"k": "vafin", "d": 1}]), ("idle",), ("ev", "msgs", [{"k": "vafin", "d": 0}]), ("idle",),
                    ("ev", "op", "o2", "announce", 0, 0), ("idle",), ("ev", "va_unsub"), ("ev", "msgs", [{"k": "vafin", "d": 1}, {"k": "vafin", "d": 0}]), ("idle",), ("tick",)]
            out.append(sch)
    # voice assistant: handler outcomes x audio x unsubscribe at every point
    for mode in ("port", "noport", "block"):
        for audio in (False, True):
            stream = [{"k": "vareq", "f": True, "d": 5}, {"k": "vaaudio", "d": 3, "f": False}, {"k": "vaaudio", "d": 0, "f": True}, {"k": "vareq", "f": False, "d": 5}, {"k": "vafin", "d": 1}]
            for cut in range(0, len(stream) + 1):
                for g in ([], [("iter", 1)], [("idle",)]):
                    sch = [("ev", "va_sub", mode, audio), ("idle",)]
                    for m in stream[:cut]:
                        sch += [("ev", "msgs", [m])] + g
                    sch += [("ev", "va_unsub")] + g
                    for m in stream[cut:]:
                        sch += [("ev", "msgs", [m]), ("iter", 1)]
                    sch += [("idle",)]
                    out.append(sch)
    return out


def tokens_to_schedule(toks: list, variant: int) -> list:
    """One history of Session.tla events (printed by TLC, GenMode) -> schedule for the real client.  User and
    environment events map one to one; the specification's internal steps (a task resuming, a timer firing, an
    answer being written) are loop iterations here.  The recorded execution is validated against the
    specification, so the translation needs no oracle of its own."""
    sch: list = []
    gap_cycle = ([], [("iter", 1)], [("idle",)])
    for n, t in enumerate(toks):
        k = t[0]
        g = list(gap_cycle[(n + variant) % 3])
        if k == "op":
            sch += [("ev", "op", t[1], t[2], int(t[3]), int(t[4]))] + g
        elif k == "chunk":
            sch += [("ev", "msgs", [dict(m) for m in t[1]])] + g
        elif k in ("step", "vastarted", "vahandler"):
            sch += [("iter", 1)]
        elif k == "timer":
            sch += [("iter", 1)]
        elif k == "time":
            sch += [("tick",)]
        elif k == "cancel":
            sch += [("ev", "cancel", t[1])] + g
        elif k == "close":
            sch += [("ev", "close")] + g
        elif k == "connunsub":
            sch += [("ev", "conn_unsub", t[1])] + g
        elif k == "sub":
            sch += [("ev", "sub", int(t[1]), t[2], bool(t[3]))] + g
        elif k == "unsub":
            sch += [("ev", "unsub", int(t[1]), t[2])] + g
        elif k == "vasub":
            sch += [("ev", "va_sub", t[1], bool(t[2]))] + g
        elif k == "vaunsub":
            sch += [("ev", "va_unsub")] + g
        elif k == "varelease":
            sch += [("ev", "va_release", int(t[1]), t[2])] + g
    sch += [("idle",), ("tick",), ("tick",), ("idle",)]
    return sch
