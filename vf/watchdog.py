"""Wall-clock watchdog around one execution of the code under test.

The virtual-time loop makes time-outs of the library instantaneous, so a case normally takes
milliseconds; a case that is still running after `seconds` of real time is stuck in a synchronous
loop of the code under test (or of the harness).  The alarm raises `Hang`, a KeyboardInterrupt
subclass so that neither the library's nor asyncio's `except Exception/BaseException` clauses swallow it.
"""

from __future__ import annotations

import contextlib
import signal


class Hang(KeyboardInterrupt):
    pass


@contextlib.contextmanager
def limit(seconds: float, what: str = ""):
    def on_alarm(signum, frame):
        raise Hang(what)

    old = signal.signal(signal.SIGALRM, on_alarm)
    signal.setitimer(signal.ITIMER_REAL, seconds)
    try:
        yield
    finally:
        signal.setitimer(signal.ITIMER_REAL, 0)
        signal.signal(signal.SIGALRM, old)
